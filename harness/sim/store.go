package sim

import (
	"errors"
	"fmt"
	"net"
	"sort"
)

// ErrStore is the injected transient Persistence failure.
var ErrStore = errors.New("sim: injected persistence failure")

// StoreOp is one completed operation on the Persistence.
type StoreOp struct {
	Op      string // save, delete, load, list
	Key     uint
	Value   []byte // raw value as handed to Save / returned by Load
	Err     bool
	CallSeq int64
	RetSeq  int64
	Version int // store version after the operation
}

// Store is the instrumented Persistence: a copy-on-write map with an operation
// log and scripted failures (error without effect).
type Store struct {
	w   *World
	cur map[uint][]byte // immutable; replaced on mutation

	Ops     []StoreOp
	Version int
	// Fail decides on failure of the n-th operation (1-based); Mu held.
	Fail func(op string, key uint, n int) bool
	// OnSave observes raw values at the boundary; Mu held.
	OnSave func(key uint, raw []byte)
	// PreCopy runs at the entry of Save, before the value is read, without lock.
	PreCopy func()
	// Inner, when set, is the real store behind the map mirror (FileSystem).
	Inner Persistence
	// AliasLoad makes Load hand out the stored slice itself instead of a copy,
	// as the library's own in-memory store does; the interface does not say who
	// owns the returned bytes. Not to be combined with snapshots.
	AliasLoad bool
	// pristine copies of what was saved, kept with AliasLoad to notice a caller
	// writing into the bytes Load handed out; Modified lists what was noticed
	pristine map[uint][]byte
	Modified []string
}

// Persistence mirrors mqtt.Persistence.
type Persistence interface {
	Load(key uint) ([]byte, error)
	Save(key uint, value net.Buffers) error
	Delete(key uint) error
	List() (keys []uint, err error)
}

func newStore(w *World) *Store {
	return &Store{w: w, cur: map[uint][]byte{}}
}

// Content returns a copy of the current content.
func (s *Store) Content() map[uint][]byte {
	s.w.Mu.Lock()
	defer s.w.Mu.Unlock()
	c := make(map[uint][]byte, len(s.cur))
	for k, v := range s.cur {
		c[k] = v
	}
	return c
}

// Plant replaces the content.
func (s *Store) Plant(m map[uint][]byte) {
	s.w.Mu.Lock()
	defer s.w.Mu.Unlock()
	c := make(map[uint][]byte, len(m))
	for k, v := range m {
		c[k] = v
	}
	s.cur = c
	s.Version++
}

// Keys returns the sorted keys of a content.
func Keys(m map[uint][]byte) []uint {
	ks := make([]uint, 0, len(m))
	for k := range m {
		ks = append(ks, k)
	}
	sort.Slice(ks, func(i, j int) bool { return ks[i] < ks[j] })
	return ks
}

func (s *Store) begin(op string, key uint, val []byte) (fail bool, call int64) {
	call = s.w.log(Event{Kind: "store." + op, Key: key, Data: val})
	n := len(s.Ops) + 1
	if s.Fail != nil && s.Fail(op, key, n) {
		fail = true
	}
	return
}

func (s *Store) end(op string, key uint, val []byte, fail bool, call int64) {
	es := ""
	if fail {
		es = "injected"
	}
	ret := s.w.log(Event{Kind: "store." + op + ".ret", Key: key, Err: es})
	s.Ops = append(s.Ops, StoreOp{Op: op, Key: key, Value: val, Err: fail, CallSeq: call, RetSeq: ret, Version: s.Version})
	s.w.cond.Broadcast()
}

// Load implements mqtt.Persistence.
func (s *Store) Load(key uint) ([]byte, error) {
	s.w.Mu.Lock()
	defer s.w.Mu.Unlock()
	if s.AliasLoad {
		s.CheckPristine()
	}
	fail, call := s.begin("load", key, nil)
	var v []byte
	if !fail {
		if s.Inner != nil {
			iv, err := s.Inner.Load(key)
			if err != nil {
				s.w.log(Event{Kind: "store.inner.error", Key: key, Err: err.Error()})
				fail = true
			}
			v = iv
		} else if cur, ok := s.cur[key]; ok {
			if s.AliasLoad {
				v = cur
			} else {
				v = append([]byte{}, cur...)
			}
		}
	}
	s.end("load", key, v, fail, call)
	if fail {
		return nil, ErrStore
	}
	return v, nil
}

// Save implements mqtt.Persistence.
func (s *Store) Save(key uint, value net.Buffers) error {
	if s.PreCopy != nil {
		s.PreCopy() // widens the window in which the caller's buffers are still unread
	}
	var flat []byte
	for _, b := range value {
		flat = append(flat, b...)
	}
	if flat == nil {
		flat = []byte{}
	}
	s.w.Mu.Lock()
	defer s.w.Mu.Unlock()
	fail, call := s.begin("save", key, flat)
	if s.OnSave != nil {
		s.OnSave(key, flat)
	}
	if !fail && s.Inner != nil {
		if err := s.Inner.Save(key, net.Buffers{flat}); err != nil {
			s.w.log(Event{Kind: "store.inner.error", Key: key, Err: err.Error()})
			fail = true
		}
	}
	if !fail && s.AliasLoad {
		if s.pristine == nil {
			s.pristine = map[uint][]byte{}
		}
		s.pristine[key] = append([]byte{}, flat...)
	}
	if !fail {
		if s.w.TakeSnaps {
			n := make(map[uint][]byte, len(s.cur)+1)
			for k, v := range s.cur {
				n[k] = v
			}
			n[key] = flat
			s.cur = n
		} else {
			s.cur[key] = flat
		}
		s.Version++
	}
	s.end("save", key, flat, fail, call)
	if fail {
		return ErrStore
	}
	s.w.snap("save")
	return nil
}

// Delete implements mqtt.Persistence.
func (s *Store) Delete(key uint) error {
	s.w.Mu.Lock()
	defer s.w.Mu.Unlock()
	fail, call := s.begin("delete", key, nil)
	if !fail && s.Inner != nil {
		if err := s.Inner.Delete(key); err != nil {
			s.w.log(Event{Kind: "store.inner.error", Key: key, Err: err.Error()})
			fail = true
		}
	}
	if !fail {
		delete(s.pristine, key)
		if _, ok := s.cur[key]; ok {
			if s.w.TakeSnaps {
				n := make(map[uint][]byte, len(s.cur))
				for k, v := range s.cur {
					if k != key {
						n[k] = v
					}
				}
				s.cur = n
			} else {
				delete(s.cur, key)
			}
			s.Version++
		}
	}
	s.end("delete", key, nil, fail, call)
	if fail {
		return ErrStore
	}
	s.w.snap("delete")
	return nil
}

// List implements mqtt.Persistence.
func (s *Store) List() ([]uint, error) {
	s.w.Mu.Lock()
	defer s.w.Mu.Unlock()
	fail, call := s.begin("list", 0, nil)
	s.end("list", 0, nil, fail, call)
	if fail {
		return nil, ErrStore
	}
	if s.Inner != nil {
		return s.Inner.List()
	}
	return Keys(s.cur), nil
}

// CheckPristine compares every stored value with what was saved; Mu held.
func (s *Store) CheckPristine() {
	for k, want := range s.pristine {
		got, ok := s.cur[k]
		if !ok {
			delete(s.pristine, k)
			continue
		}
		if string(got) != string(want) {
			at := 0
			for at < len(got) && at < len(want) && got[at] == want[at] {
				at++
			}
			s.Modified = append(s.Modified, fmt.Sprintf("record %#x no longer holds what was saved: byte %d is %#02x, saved %#02x (the client wrote into the slice Load returned)", k, at, got[at], want[at]))
			s.pristine[k] = append([]byte{}, got...)
		}
	}
}

// CurrentLocked returns the content; Mu held.
func (s *Store) CurrentLocked() map[uint][]byte { return s.cur }
