package sim

import (
	"fmt"

	"verif/wire"
)

// Delivery is what a subscriber would have received through the broker.
type Delivery struct {
	QoS    byte
	ID     uint16
	Topic  string
	Marker string // payload prefix
	Len    int
	Dup    bool
	Retain bool
	Conn   int
	Seq    int64
}

// OutMsg is a message from the broker to the client.
type OutMsg struct {
	ID      uint16
	QoS     byte
	Topic   string
	Payload []byte
	State   int // 0: awaits PUBACK/PUBREC, 1: awaits PUBCOMP
	Sent    int // transmissions of the PUBLISH
	RelSent int
	Retain  bool
}

// BrokerState is the part of the broker that survives connections. It is
// plain data.
type BrokerState struct {
	Session    bool
	AwaitRel   map[uint16]bool // inbound QoS 2 identifiers awaiting PUBREL
	Deliveries []Delivery
	Out        []*OutMsg // pending towards the client, in order
	NextID     uint16
}

// Clone copies.
func (s BrokerState) Clone() BrokerState {
	c := s
	c.AwaitRel = make(map[uint16]bool, len(s.AwaitRel))
	for k, v := range s.AwaitRel {
		c.AwaitRel[k] = v
	}
	c.Deliveries = s.Deliveries[:len(s.Deliveries):len(s.Deliveries)]
	c.Out = make([]*OutMsg, len(s.Out))
	for i, m := range s.Out {
		cp := *m
		c.Out[i] = &cp
	}
	return c
}

type connState struct {
	connected    bool
	accepted     bool
	disconnected bool
	dead         bool // stop parsing
	packets      int
}

type held struct {
	c    *Conn
	b    []byte
	note string
}

// Broker is the reference broker for one client session. It conforms to MQTT
// 3.1.1 by construction; scripted misbehaviour stays inside conformance
// (withheld answers, connection loss).
type Broker struct {
	w     *World
	State BrokerState

	conns map[*Conn]*connState
	Held  []held

	// Errors lists protocol violations by the client, as seen by the broker.
	Errors []string

	// Connack decides the reply to CONNECT; nil means accept.
	// The bytes are sent as is; nil sends nothing.
	Connack func(b *Broker, c *Conn, p *wire.Packet) []byte
	// AckPolicy decides on a reply: "" now, "hold" until ReleaseHeld,
	// "drop" never (the connection must break later).
	AckPolicy func(b *Broker, c *Conn, p *wire.Packet, reply []byte) string
	// SubCodes decides the SUBACK return codes; nil grants the request.
	SubCodes func(p *wire.Packet) []byte
	// OnPacket observes each packet from the client after handling.
	OnPacket func(c *Conn, p *wire.Packet)
	// Mute disables all automatic replies after the CONNACK (raw streams).
	Mute bool
	// ReuseIDs makes Publish pick the lowest free packet identifier instead
	// of counting on.
	ReuseIDs bool
	// IDBase is where the identifiers for messages towards the client start
	// (0 means 1): a broker chooses them freely, also inside the ranges the
	// client uses for its own publishes.
	IDBase uint16
	// HoldPubrel withholds the PUBREL that answers a PUBREC; it goes out with the
	// retransmission on the next connection.
	HoldPubrel bool
}

func newBroker(w *World) *Broker {
	return &Broker{w: w, conns: map[*Conn]*connState{}, State: BrokerState{AwaitRel: map[uint16]bool{}, NextID: 1}}
}

func (b *Broker) cs(c *Conn) *connState {
	s := b.conns[c]
	if s == nil {
		s = &connState{}
		b.conns[c] = s
	}
	return s
}

// Accepted tells whether the connection got an accepting CONNACK.
func (b *Broker) Accepted(c *Conn) bool { return b.cs(c).accepted }

func (b *Broker) errorf(c *Conn, format string, a ...any) {
	msg := fmt.Sprintf("conn %d: ", c.Idx) + fmt.Sprintf(format, a...)
	b.Errors = append(b.Errors, msg)
	b.w.log(Event{Kind: "broker.error", Conn: c.Idx, Note: msg})
}

// receive gets the bytes accepted by a connection; Mu held.
func (b *Broker) receive(c *Conn, p []byte) {
	s := b.cs(c)
	if s.dead {
		return
	}
	c.brokerBuf = append(c.brokerBuf, p...)
	for len(c.brokerBuf) != 0 {
		pkt, err := wire.Decode(c.brokerBuf, true)
		if err == wire.ErrIncomplete {
			return
		}
		if err != nil {
			b.errorf(c, "malformed packet %d from client: %v (%x)", s.packets, err, head(c.brokerBuf, 32))
			s.dead = true
			return
		}
		raw := append([]byte(nil), pkt.Raw...)
		c.brokerBuf = c.brokerBuf[len(pkt.Raw):]
		pkt, _ = wire.Decode(raw, true) // detach from the buffer
		s.packets++
		b.handle(c, s, pkt)
		if b.OnPacket != nil {
			b.OnPacket(c, pkt)
		}
	}
}

func head(b []byte, n int) []byte {
	if len(b) > n {
		return b[:n]
	}
	return b
}

func (b *Broker) reply(c *Conn, p *wire.Packet, r []byte, note string) {
	if b.Mute {
		return
	}
	policy := ""
	if b.AckPolicy != nil {
		policy = b.AckPolicy(b, c, p, r)
	}
	if policy == "" {
		// replies stay in order: once one is withheld the later ones queue behind
		// (per reply type: the specification orders PUBACKs among themselves,
		// PUBRECs among themselves, and the client expects the same of PUBCOMPs)
		if len(b.Held) != 0 && b.heldFor(c, r[0]) {
			policy = "hold"
		}
	}
	switch policy {
	case "hold":
		b.Held = append(b.Held, held{c, r, note})
		b.w.log(Event{Kind: "broker.hold", Conn: c.Idx, Data: r, Note: note})
	case "drop":
		b.w.log(Event{Kind: "broker.drop", Conn: c.Idx, Data: r, Note: note})
	default:
		c.send(r, note)
	}
}

// ReleaseHeld sends the withheld replies of connections still open.
func (b *Broker) ReleaseHeld() {
	b.w.Mu.Lock()
	defer b.w.Mu.Unlock()
	h := b.Held
	b.Held = nil
	for _, e := range h {
		if !e.c.closed && e.c.broken == nil {
			e.c.send(e.b, e.note+" (released)")
		}
	}
}

func (b *Broker) handle(c *Conn, s *connState, p *wire.Packet) {
	w := b.w
	w.log(Event{Kind: "broker.recv", Conn: c.Idx, Off: c.OutSeen, Note: p.String()})
	if s.disconnected {
		b.errorf(c, "%s after DISCONNECT", p)
		return
	}
	if !s.connected {
		if p.Type != wire.CONNECT {
			b.errorf(c, "first packet is %s, want CONNECT", p)
			s.dead = true
			return
		}
		s.connected = true
		var r []byte
		if b.Connack != nil {
			r = b.Connack(b, c, p)
		} else {
			sp := b.State.Session && !p.Connect.CleanSession
			r = wire.Connack(sp, 0)
		}
		if len(r) == 4 && r[0] == wire.CONNACK<<4 && r[1] == 2 && r[3] == 0 && r[2]&^1 == 0 {
			s.accepted = true
			if p.Connect.CleanSession {
				b.State.AwaitRel = map[uint16]bool{}
				b.State.Out = nil
			}
			b.State.Session = true
			w.snap("connect accepted")
		}
		if r != nil {
			c.send(r, "CONNACK")
		}
		if s.accepted {
			b.retransmit(c)
		}
		return
	}
	if p.Type == wire.CONNECT {
		b.errorf(c, "second CONNECT")
		s.dead = true
		return
	}
	if !s.accepted {
		b.errorf(c, "%s without accepted CONNECT", p)
		return
	}

	switch p.Type {
	case wire.PUBLISH:
		d := Delivery{QoS: p.QoS, ID: p.ID, Topic: p.Topic, Marker: string(head(p.Payload, 24)), Len: len(p.Payload), Dup: p.Dup, Retain: p.Retain, Conn: c.Idx, Seq: w.seq}
		switch p.QoS {
		case 0:
			b.State.Deliveries = append(b.State.Deliveries, d)
			w.snap("publish0")
		case 1:
			b.State.Deliveries = append(b.State.Deliveries, d)
			w.snap("publish1")
			b.reply(c, p, wire.Ack(wire.PUBACK, p.ID), "PUBACK")
		case 2:
			if !b.State.AwaitRel[p.ID] {
				b.State.AwaitRel[p.ID] = true
				b.State.Deliveries = append(b.State.Deliveries, d)
				w.snap("publish2")
			}
			b.reply(c, p, wire.Ack(wire.PUBREC, p.ID), "PUBREC")
		}
	case wire.PUBREL:
		if b.State.AwaitRel[p.ID] {
			delete(b.State.AwaitRel, p.ID)
			w.snap("pubrel")
		}
		b.reply(c, p, wire.Ack(wire.PUBCOMP, p.ID), "PUBCOMP")
	case wire.SUBSCRIBE:
		codes := append([]byte(nil), p.QoSs...)
		if b.SubCodes != nil {
			codes = b.SubCodes(p)
		}
		b.reply(c, p, wire.Suback(p.ID, codes...), "SUBACK")
	case wire.UNSUBSCRIBE:
		b.reply(c, p, wire.Ack(wire.UNSUBACK, p.ID), "UNSUBACK")
	case wire.PINGREQ:
		b.reply(c, p, wire.Pingresp(), "PINGRESP")
	case wire.DISCONNECT:
		s.disconnected = true
	case wire.PUBACK:
		for i, m := range b.State.Out {
			if m.ID == p.ID && m.QoS == 1 {
				b.State.Out = append(b.State.Out[:i:i], b.State.Out[i+1:]...)
				w.snap("puback")
				return
			}
		}
		b.errorf(c, "PUBACK %#04x for nothing pending", p.ID)
	case wire.PUBREC:
		for _, m := range b.State.Out {
			if m.ID == p.ID && m.QoS == 2 {
				m.State = 1
				w.snap("pubrec")
				if b.HoldPubrel {
					return
				}
				m.RelSent++
				if !b.Mute {
					c.send(wire.Ack(wire.PUBREL, p.ID), "PUBREL")
				}
				return
			}
		}
		b.errorf(c, "PUBREC %#04x for nothing pending", p.ID)
	case wire.PUBCOMP:
		for i, m := range b.State.Out {
			if m.ID == p.ID && m.QoS == 2 && m.State == 1 {
				b.State.Out = append(b.State.Out[:i:i], b.State.Out[i+1:]...)
				w.snap("pubcomp")
				return
			}
		}
		// PUBCOMP for unknown identifiers is what a client must send on PUBREL repeats
	}
}

// retransmit sends what is pending towards the client on a new connection.
func (b *Broker) retransmit(c *Conn) {
	if b.Mute {
		return
	}
	for _, m := range b.State.Out {
		if m.State == 1 {
			m.RelSent++
			c.send(wire.Ack(wire.PUBREL, m.ID), "PUBREL (again)")
			continue
		}
		m.Sent++
		c.send(wire.Publish(m.Topic, m.Payload, m.QoS, m.ID, m.Sent > 1, m.Retain), "PUBLISH (again)")
	}
}

func (b *Broker) connClosed(c *Conn) {
	// held replies of a closed connection are lost
	keep := b.Held[:0]
	for _, h := range b.Held {
		if h.c != c {
			keep = append(keep, h)
		}
	}
	b.Held = keep
}

func (b *Broker) delivered(c *Conn) {}

// Publish sends a message to the client on the current connection, or queues
// it for the next one. QoS 1 and 2 get a fresh identifier.
func (b *Broker) Publish(topic string, payload []byte, qos byte, retain bool) *OutMsg {
	b.w.Mu.Lock()
	defer b.w.Mu.Unlock()
	return b.publish(topic, payload, qos, retain, 0)
}

// PublishID is like Publish with a chosen identifier.
func (b *Broker) PublishID(topic string, payload []byte, qos byte, id uint16) *OutMsg {
	b.w.Mu.Lock()
	defer b.w.Mu.Unlock()
	return b.publish(topic, payload, qos, false, id)
}

func (b *Broker) publish(topic string, payload []byte, qos byte, retain bool, id uint16) *OutMsg {
	m := &OutMsg{QoS: qos, Topic: topic, Payload: payload, Retain: retain}
	if qos != 0 {
		if id == 0 {
			if b.ReuseIDs {
				b.State.NextID = max(b.IDBase, 1)
			}
			for {
				id = b.State.NextID
				b.State.NextID++
				if b.State.NextID == 0 {
					b.State.NextID = 1
				}
				if id == 0 {
					continue
				}
				used := false
				for _, o := range b.State.Out {
					if o.ID == id {
						used = true
					}
				}
				if !used {
					break
				}
			}
		}
		m.ID = id
		b.State.Out = append(b.State.Out, m)
	}
	c := b.w.Cur()
	if c != nil && !c.closed && c.broken == nil && b.cs(c).accepted && c.InEnd < 0 {
		m.Sent++
		c.send(wire.Publish(topic, payload, qos, m.ID, false, retain), "PUBLISH")
	}
	b.w.snap("broker publish")
	return m
}

// Pending counts the messages towards the client that are not complete.
// LoseSession makes the broker forget the session, as after a restart of the
// broker without persistence: the next CONNACK has session-present 0 and
// nothing is retransmitted.
func (b *Broker) LoseSession() {
	b.w.Mu.Lock()
	defer b.w.Mu.Unlock()
	b.State.Session = false
	b.State.AwaitRel = map[uint16]bool{}
	b.State.Out = nil
	b.w.log(Event{Kind: "broker.session.lost"})
}

func (b *Broker) Pending() int {
	b.w.Mu.Lock()
	defer b.w.Mu.Unlock()
	return len(b.State.Out)
}

func (b *Broker) heldFor(c *Conn, head byte) bool {
	for i := len(b.Held) - 1; i >= 0; i-- {
		if h := b.Held[i]; h.c == c && h.b[0] == head {
			return true
		}
	}
	return false
}

// HeldReply is a withheld reply, as handed out by TakeHeld.
type HeldReply struct {
	Conn  *Conn
	Bytes []byte
	Note  string
}

// TakeHeld removes and returns the withheld replies.
func (b *Broker) TakeHeld() []HeldReply {
	b.w.Mu.Lock()
	defer b.w.Mu.Unlock()
	var out []HeldReply
	for _, h := range b.Held {
		out = append(out, HeldReply{h.c, h.b, h.note})
	}
	b.Held = nil
	return out
}

// HeldCount tells how many replies are withheld.
func (b *Broker) HeldCount() int {
	b.w.Mu.Lock()
	defer b.w.Mu.Unlock()
	return len(b.Held)
}

// HeldCountLocked is HeldCount with Mu held.
func (b *Broker) HeldCountLocked() int { return len(b.Held) }

// Alive tells whether bytes can still be delivered on the connection.
func (c *Conn) Alive() bool {
	c.w.Mu.Lock()
	defer c.w.Mu.Unlock()
	return !c.closed && c.broken == nil && c.InEnd < 0
}
