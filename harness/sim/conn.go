package sim

import (
	"context"
	"errors"
	"fmt"
	"io"
	"net"
	"os"
	"sort"
	"time"

	"verif/wire"
)

// DialDecision is the outcome of a Dialer invocation.
type DialDecision struct {
	Err  error  // fail the dial
	Gate string // block on this gate first (aborted by context)
	// IgnoreCancel: a Dialer that does not look at its context; the gate is
	// not aborted and a connection comes back although the context is done.
	IgnoreCancel bool
}

// WriteDecision tells how a Write call proceeds.
type WriteDecision struct {
	Accept int // bytes accepted, 0..len(p); negative means all
	// Then is what follows the accepted bytes: "" (success when all
	// accepted), "timeout" (net.Error with Timeout), "error" (hard).
	Then string
	// Gate makes the call block first (before accepting anything).
	Gate string
	// Blackhole: the accepted bytes of this and all later writes never
	// reach the broker (the connection died underway).
	Blackhole bool
	// GateAfter makes the call block after Accept bytes went out; when the
	// connection gets closed meanwhile the call fails with the partial count,
	// otherwise the remainder is accepted once the gate opens (or, with Then
	// "timeout", the call reports an expiry with the partial count; with Then
	// "error" a hard failure with the partial count).
	GateAfter string
}

// ReadDecision tells how a Read call proceeds.
type ReadDecision struct {
	Deliver int // bytes to hand over, at most avail; negative means all
	// Then: "" ok, "timeout", "eof", "reset", "block" (only with nothing
	// available: wait for more).
	Then string
	Gate string
}

type timeoutError struct{ op string }

func (e *timeoutError) Error() string   { return "sim: " + e.op + " deadline exceeded" }
func (e *timeoutError) Timeout() bool   { return true }
func (e *timeoutError) Temporary() bool { return true }
func (e *timeoutError) Is(t error) bool { return t == os.ErrDeadlineExceeded }

// ErrInjected is the hard I/O error of scripted faults.
var ErrInjected = errors.New("sim: injected connection failure")

// Conn is the scripted in-memory connection.
type Conn struct {
	w   *World
	Idx int // 1-based

	Out     []byte // bytes accepted from the client
	OutSeen int    // bytes handed to the broker
	In      []byte // bytes queued for the client
	InPos   int    // delivered
	// InEnd, when non-negative: after delivering this many bytes Read reports InErr.
	InEnd int
	InErr error

	armedAt      int  // InPos when the read deadline was last armed
	pendingStall bool // the next Read reports an expiry (if legal)
	// expiries reported in a row at the same inbound position
	stallPos, stallsInRow int
	stallFlagged          bool
	// StallsFired counts expiries delivered after progress.
	StallsFired int

	closed    bool // Close called
	CloseSeq  int64
	broken    error
	blackhole bool
	rdl, wdl  bool
	// a deadline that expired stays expired until it is set again: the next
	// call fails at once, as with a net.Conn whose deadline lies in the past
	rExpired, wExpired bool

	readWaiting int
	brokerBuf   []byte // undecoded client bytes
	pktStart    int    // start of the inbound packet containing InPos

	// ConnackDone: the CONNACK was delivered entirely.
	Writes, Reads int
	// Faults that fired on this connection.
	OutFaults, InFaults int
	// WriteEvents maps out offsets to event numbers.
	WriteSeqs []OffSeq
	ReadSeqs  []OffSeq
	DialSeq   int64
}

// OffSeq tells at which logical time a stream offset was reached.
type OffSeq struct {
	Off int // stream length after the operation
	Seq int64
}

// SeqOfOut returns the logical time at which out byte offset (exclusive end)
// was accepted.
func (c *Conn) SeqOfOut(end int) int64 {
	i := sort.Search(len(c.WriteSeqs), func(i int) bool { return c.WriteSeqs[i].Off >= end })
	if i < len(c.WriteSeqs) {
		return c.WriteSeqs[i].Seq
	}
	return 0
}

// SeqOfIn returns the logical time at which the inbound offset (exclusive end)
// was delivered to the client, zero when never.
func (c *Conn) SeqOfIn(end int) int64 {
	i := sort.Search(len(c.ReadSeqs), func(i int) bool { return c.ReadSeqs[i].Off >= end })
	if i < len(c.ReadSeqs) {
		return c.ReadSeqs[i].Seq
	}
	return 0
}

func (c *Conn) avail() int {
	n := len(c.In) - c.InPos
	if c.InEnd >= 0 && c.InEnd-c.InPos < n {
		n = c.InEnd - c.InPos
		if n < 0 {
			n = 0
		}
	}
	return n
}

func (c *Conn) pendingReadErr() error {
	if c.InEnd >= 0 && c.InPos >= c.InEnd {
		return c.InErr
	}
	return nil
}

// Closed tells whether the client closed the connection.
func (c *Conn) Closed() bool { return c.closed }

// Dialer returns the function for Config.Dialer.
func (w *World) Dialer() func(ctx context.Context) (net.Conn, error) {
	return func(ctx context.Context) (net.Conn, error) {
		w.Mu.Lock()
		defer w.Mu.Unlock()
		w.Dials++
		attempt := w.Dials
		w.log(Event{Kind: "dial", N: attempt})
		var d DialDecision
		if w.DialPlan != nil {
			d = w.DialPlan(w, attempt)
		}
		if d.Gate != "" {
			w.waitGate(w.Gate(d.Gate), func() bool { return !d.IgnoreCancel && ctx.Err() != nil })
			if err := ctx.Err(); err != nil && !d.IgnoreCancel {
				w.log(Event{Kind: "dial.ret", N: attempt, Err: err.Error()})
				return nil, err
			}
		}
		if d.Err != nil {
			w.log(Event{Kind: "dial.ret", N: attempt, Err: d.Err.Error()})
			return nil, d.Err
		}
		c := &Conn{w: w, Idx: len(w.Conns) + 1, InEnd: -1}
		w.Conns = append(w.Conns, c)
		c.DialSeq = w.log(Event{Kind: "dial.ret", N: attempt, Conn: c.Idx})
		return c, nil
	}
}

// CancelWake must be invoked when a context is canceled, to wake gated dials.
func (w *World) CancelWake() { w.cond.Broadcast() }

// CurConn returns the latest connection or nil; for callers without Mu.
func (w *World) CurConn() *Conn {
	w.Mu.Lock()
	defer w.Mu.Unlock()
	return w.Cur()
}

// Cur returns the latest connection or nil; Mu held.
func (w *World) Cur() *Conn {
	if len(w.Conns) == 0 {
		return nil
	}
	return w.Conns[len(w.Conns)-1]
}

func (c *Conn) Write(p []byte) (int, error) {
	w := c.w
	w.Mu.Lock()
	defer w.Mu.Unlock()
	c.Writes++
	if w.RequireDeadlines && !c.wdl {
		w.Online = append(w.Online, fmt.Sprintf("deadline discipline: Write of %d bytes on conn %d without a write deadline", len(p), c.Idx))
	}
	if c.closed {
		w.log(Event{Kind: "write", Conn: c.Idx, Off: len(c.Out), Err: "closed"})
		return 0, &net.OpError{Op: "write", Net: "sim", Err: net.ErrClosed}
	}
	if c.broken != nil {
		w.log(Event{Kind: "write", Conn: c.Idx, Off: len(c.Out), Err: c.broken.Error()})
		return 0, c.broken
	}
	if c.wdl && c.wExpired {
		w.log(Event{Kind: "write", Conn: c.Idx, Off: len(c.Out), Err: "timeout (deadline expired before and was not set again)"})
		return 0, &net.OpError{Op: "write", Net: "sim", Err: &timeoutError{"write"}}
	}
	if len(p) == 0 {
		return 0, nil // nothing reaches the network
	}
	d := WriteDecision{Accept: -1}
	if w.WritePlan != nil {
		d = w.WritePlan(c, p)
	}
	if d.Gate != "" {
		w.log(Event{Kind: "write.gate", Conn: c.Idx, Off: len(c.Out), Note: d.Gate})
		w.waitGate(w.Gate(d.Gate), func() bool { return c.closed })
		if c.closed {
			w.log(Event{Kind: "write", Conn: c.Idx, Off: len(c.Out), Err: "closed"})
			return 0, &net.OpError{Op: "write", Net: "sim", Err: net.ErrClosed}
		}
	}
	n := d.Accept
	if n < 0 || n > len(p) {
		n = len(p)
	}
	if d.GateAfter != "" && n < len(p) {
		off := len(c.Out)
		c.Out = append(c.Out, p[:n]...)
		seq := w.log(Event{Kind: "write", Conn: c.Idx, Off: off, N: n, Data: p[:n], Note: "then gate " + d.GateAfter})
		c.WriteSeqs = append(c.WriteSeqs, OffSeq{len(c.Out), seq})
		if n > 0 && !c.blackhole {
			c.OutSeen = len(c.Out)
			w.Broker.receive(c, p[:n])
		}
		w.waitGate(w.Gate(d.GateAfter), func() bool { return c.closed })
		if c.closed {
			w.log(Event{Kind: "write", Conn: c.Idx, Off: len(c.Out), Err: "closed"})
			return n, &net.OpError{Op: "write", Net: "sim", Err: net.ErrClosed}
		}
		if d.Then == "timeout" && c.wdl {
			// the deadline expires with the accepted part as progress
			w.log(Event{Kind: "write", Conn: c.Idx, Off: len(c.Out), Err: "timeout"})
			c.OutFaults++
			c.wExpired = true
			w.cond.Broadcast()
			return n, &net.OpError{Op: "write", Net: "sim", Err: &timeoutError{"write"}}
		}
		if d.Then == "error" {
			// the connection fails while the remainder is still to go out
			err := &net.OpError{Op: "write", Net: "sim", Err: ErrInjected}
			c.broken = err
			c.OutFaults++
			w.log(Event{Kind: "write", Conn: c.Idx, Off: len(c.Out), Err: "error"})
			w.cond.Broadcast()
			return n, err
		}
		p2 := p[n:]
		off = len(c.Out)
		c.Out = append(c.Out, p2...)
		seq = w.log(Event{Kind: "write", Conn: c.Idx, Off: off, N: len(p2), Data: p2})
		c.WriteSeqs = append(c.WriteSeqs, OffSeq{len(c.Out), seq})
		if !c.blackhole {
			c.OutSeen = len(c.Out)
			w.Broker.receive(c, p2)
		}
		w.cond.Broadcast()
		return len(p), nil
	}
	then := d.Then
	if then == "timeout" && !c.wdl {
		// cannot expire without a deadline
		then, n = "", len(p)
	}
	if then == "" && n < len(p) {
		n = len(p)
	}
	off := len(c.Out)
	c.Out = append(c.Out, p[:n]...)
	if d.Blackhole {
		c.blackhole = true
	}
	var err error
	switch then {
	case "timeout":
		err = &net.OpError{Op: "write", Net: "sim", Err: &timeoutError{"write"}}
		c.OutFaults++
		c.wExpired = true
	case "error":
		err = &net.OpError{Op: "write", Net: "sim", Err: ErrInjected}
		c.broken = err
		c.OutFaults++
	}
	es := ""
	if err != nil {
		es = then
	}
	seq := w.log(Event{Kind: "write", Conn: c.Idx, Off: off, N: n, Data: p[:n], Err: es})
	c.WriteSeqs = append(c.WriteSeqs, OffSeq{len(c.Out), seq})
	if !c.blackhole && n > 0 {
		c.OutSeen = len(c.Out)
		w.Broker.receive(c, p[:n])
	}
	w.cond.Broadcast()
	return n, err
}

// insidePacket reports whether the delivered position is strictly inside an
// inbound packet (or before the end of the CONNACK).
func (c *Conn) insidePacket() bool {
	if c.InPos < 4 {
		return true // the client awaits the CONNACK
	}
	for {
		if c.pktStart == c.InPos {
			return false
		}
		hl, rem, err := wire.Header(c.In[c.pktStart:])
		if err != nil {
			if err == wire.ErrIncomplete {
				// header itself is incomplete
				return c.InPos > c.pktStart
			}
			return false // unknown framing
		}
		end := c.pktStart + hl + rem
		if end > c.InPos {
			return true
		}
		c.pktStart = end
	}
}

func (c *Conn) Read(p []byte) (int, error) {
	w := c.w
	w.Mu.Lock()
	defer w.Mu.Unlock()
	c.Reads++
	if c.stallsInRow >= 2 && c.stallPos == c.InPos && !c.closed && !c.stallFlagged {
		// the first expiry may follow progress, the second one did not
		c.stallFlagged = true
		w.Online = append(w.Online, fmt.Sprintf("bounded wait: Read on conn %d at inbound offset %d goes on after %d deadline expiries in a row without a byte in between", c.Idx, c.InPos, c.stallsInRow))
	}
	for {
		if c.closed {
			w.log(Event{Kind: "read", Conn: c.Idx, Off: c.InPos, Err: "closed"})
			return 0, &net.OpError{Op: "read", Net: "sim", Err: net.ErrClosed}
		}
		if c.broken != nil {
			w.log(Event{Kind: "read", Conn: c.Idx, Off: c.InPos, Err: c.broken.Error()})
			return 0, c.broken
		}
		if c.rdl && c.rExpired {
			w.log(Event{Kind: "read", Conn: c.Idx, Off: c.InPos, Err: "timeout (deadline expired before and was not set again)"})
			return 0, &net.OpError{Op: "read", Net: "sim", Err: &timeoutError{"read"}}
		}
		if c.pendingStall {
			c.pendingStall = false
			// an expiry is only legal under an armed deadline; it counts as
			// progress-making when a byte arrived since the arming
			if c.rdl && c.InPos > c.armedAt {
				c.StallsFired++
				c.InFaults++
				c.noteStall()
				w.log(Event{Kind: "read", Conn: c.Idx, Off: c.InPos, Err: "timeout after progress"})
				c.rExpired = true
				return 0, &net.OpError{Op: "read", Net: "sim", Err: &timeoutError{"read"}}
			}
		}
		avail := c.avail()
		if avail == 0 {
			if err := c.pendingReadErr(); err != nil {
				w.log(Event{Kind: "read", Conn: c.Idx, Off: c.InPos, Err: err.Error()})
				c.InFaults++
				if err != io.EOF {
					c.broken = err
				}
				return 0, err
			}
		}
		d := ReadDecision{Deliver: -1}
		if avail == 0 {
			d.Then = "block"
		}
		if w.ReadPlan != nil {
			d = w.ReadPlan(c, avail)
		}
		if d.Gate != "" {
			g := w.Gate(d.Gate)
			if !g.open {
				w.log(Event{Kind: "read.gate", Conn: c.Idx, Off: c.InPos, Note: d.Gate})
				c.gateWait(g)
				continue
			}
		}
		n := d.Deliver
		if n < 0 || n > avail {
			n = avail
		}
		if n > len(p) {
			n = len(p)
		}
		then := d.Then
		if then == "timeout" && !c.rdl {
			then = ""
			if avail == 0 {
				then = "block"
			}
		}
		if then == "" && n == 0 {
			then = "block"
		}
		if then == "block" && n == 0 {
			if avail != 0 {
				n = min(avail, len(p))
				then = ""
			} else {
				if w.RequireDeadlines && !c.rdl && c.insidePacket() {
					w.Online = append(w.Online, fmt.Sprintf("deadline discipline: Read on conn %d blocks inside a packet (inbound offset %d) without a read deadline", c.Idx, c.InPos))
				}
				c.readWaiting++
				w.cond.Broadcast()
				w.cond.Wait()
				c.readWaiting--
				continue
			}
		}
		off := c.InPos
		copy(p, c.In[c.InPos:c.InPos+n])
		c.InPos += n
		var err error
		switch then {
		case "timeout":
			if n > 0 {
				// a real connection reports the expiry on its own call
				c.pendingStall = true
				break
			}
			err = &net.OpError{Op: "read", Net: "sim", Err: &timeoutError{"read"}}
			c.InFaults++
			c.rExpired = true
			c.noteStall()
		case "eof":
			err = io.EOF
			c.InFaults++
		case "reset":
			err = &net.OpError{Op: "read", Net: "sim", Err: ErrInjected}
			c.broken = err
			c.InFaults++
		}
		es := ""
		if err != nil {
			es = then
		}
		seq := w.log(Event{Kind: "read", Conn: c.Idx, Off: off, N: n, Err: es})
		c.ReadSeqs = append(c.ReadSeqs, OffSeq{c.InPos, seq})
		if n > 0 {
			w.Broker.delivered(c)
		}
		return n, err
	}
}

// noteStall counts expiries in a row at one inbound position; Mu held.
func (c *Conn) noteStall() {
	if c.stallPos == c.InPos && c.stallsInRow > 0 {
		c.stallsInRow++
	} else {
		c.stallPos, c.stallsInRow = c.InPos, 1
	}
}

func (c *Conn) gateWait(g *Gate) {
	g.Waiting++
	c.w.cond.Broadcast()
	for !g.open && !c.closed {
		c.w.cond.Wait()
	}
	g.Waiting--
}

// Close implements net.Conn.
func (c *Conn) Close() error {
	w := c.w
	w.Mu.Lock()
	defer w.Mu.Unlock()
	if !c.closed {
		c.closed = true
		c.CloseSeq = w.log(Event{Kind: "close", Conn: c.Idx})
		w.Broker.connClosed(c)
	}
	w.cond.Broadcast()
	if w.CloseErr != nil {
		// the connection is closed all the same; the transport complains
		return w.CloseErr
	}
	return nil
}

type simAddr struct{}

func (simAddr) Network() string { return "sim" }
func (simAddr) String() string  { return "sim" }

func (c *Conn) LocalAddr() net.Addr  { return simAddr{} }
func (c *Conn) RemoteAddr() net.Addr { return simAddr{} }

func (c *Conn) SetDeadline(t time.Time) error {
	c.SetReadDeadline(t)
	return c.SetWriteDeadline(t)
}

func (c *Conn) SetReadDeadline(t time.Time) error {
	c.w.Mu.Lock()
	defer c.w.Mu.Unlock()
	c.rdl = !t.IsZero()
	c.rExpired = false
	c.armedAt = c.InPos
	if c.closed {
		return &net.OpError{Op: "set", Net: "sim", Err: net.ErrClosed}
	}
	return nil
}

func (c *Conn) SetWriteDeadline(t time.Time) error {
	c.w.Mu.Lock()
	defer c.w.Mu.Unlock()
	c.wdl = !t.IsZero()
	c.wExpired = false
	if c.closed {
		return &net.OpError{Op: "set", Net: "sim", Err: net.ErrClosed}
	}
	return nil
}

// Send queues bytes for the client; Mu held.
func (c *Conn) send(b []byte, note string) {
	off := len(c.In)
	c.In = append(c.In, b...)
	c.w.log(Event{Kind: "broker.send", Conn: c.Idx, Off: off, N: len(b), Data: b, Note: note})
	c.w.cond.Broadcast()
}

// Send queues bytes for the client from outside.
func (c *Conn) Send(b []byte, note string) {
	c.w.Mu.Lock()
	defer c.w.Mu.Unlock()
	c.send(b, note)
}

// EndInbound makes the inbound stream end at the current queue end (or at
// offset when non-negative) with the given error (io.EOF or a reset).
func (c *Conn) EndInbound(offset int, err error) {
	c.w.Mu.Lock()
	defer c.w.Mu.Unlock()
	c.endInbound(offset, err)
}

func (c *Conn) endInbound(offset int, err error) {
	if offset < 0 {
		offset = len(c.In)
	}
	if offset < c.InPos {
		offset = c.InPos
	}
	c.InEnd = offset
	c.InErr = err
	c.w.log(Event{Kind: "broker.end", Conn: c.Idx, Off: offset, Err: err.Error()})
	c.w.cond.Broadcast()
}

// InLen returns the number of bytes queued for the client so far.
func (c *Conn) InLen() int {
	c.w.Mu.Lock()
	defer c.w.Mu.Unlock()
	return len(c.In)
}

// EndInboundLocked is EndInbound for scripts that run with Mu held.
func (c *Conn) EndInboundLocked(offset int, err error) { c.endInbound(offset, err) }

// SendLocked is Send for scripts that run with Mu held.
func (c *Conn) SendLocked(b []byte, note string) { c.send(b, note) }

// ReadDeadlineArmed tells whether a read deadline is set; Mu held.
func (c *Conn) ReadDeadlineArmed() bool { return c.rdl }

// MidPacket tells whether the delivered position is inside an inbound packet
// (or before the end of the CONNACK); Mu held.
func (c *Conn) MidPacket() bool { return c.insidePacket() }
