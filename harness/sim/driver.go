package sim

import (
	"errors"
	"fmt"
	"sync"
	"time"

	"github.com/pascaldekloe/mqtt"
)

// StepTimeout is the wall-clock watchdog for expected conditions. Its expiry
// alone decides nothing: see World.Diagnose.
var StepTimeout = 8 * time.Second

// XErr is an error received on an exchange channel.
type XErr struct {
	Err error
	Seq int64
}

// Pub is one persisted publish issued through the Driver.
type Pub struct {
	N       int // marker number, unique per episode (across generations)
	Level   int // 1 or 2
	Retain  bool
	Topic   string
	Payload []byte
	Gen     int
	CallSeq int64
	RetSeq  int64
	Err     error
	// X is the exchange channel when the Driver does not watch it.
	X <-chan error
	// Exchange observations, guarded by World.Mu.
	XErrs     []XErr
	ClosedSeq int64
}

// Accepted tells whether the publish call returned without error.
func (p *Pub) Accepted() bool { return p.RetSeq != 0 && p.Err == nil }

// ReadRet is one return of ReadSlices.
type ReadRet struct {
	CallSeq, Seq int64
	Msg          []byte
	Topic        string
	Err          error
	Big          bool
	BigSize      int
	BigRead      bool
	BigErr       error
}

// Call is one non-persisted request.
type Call struct {
	N       int
	Method  string
	Args    []string
	CallSeq int64
	RetSeq  int64
	Err     error
	Done    chan struct{}
}

// Driver issues API calls on a Client and records them.
type Driver struct {
	W   *World
	C   *mqtt.Client
	Gen int

	mu     sync.Mutex
	Pubs   []*Pub
	Calls  []*Call
	Reads  []*ReadRet
	nextN  *int
	wg     sync.WaitGroup
	ReadWG sync.WaitGroup

	// Open counts the accepted publishes whose exchange did not close yet;
	// guarded by World.Mu.
	Open int
	// OpenByLevel is Open per quality-of-service level; guarded by World.Mu.
	OpenByLevel [3]int

	// reader control
	Manual     bool
	allow      int
	ReaderDone chan struct{}
	// OnReturn runs in the read routine after each ReadSlices return.
	OnReturn func(r *ReadRet)
	// BigRead decides whether a BigMessage gets read.
	BigRead func(b *mqtt.BigMessage) bool
	// NoWatch leaves the exchange channels undrained.
	NoWatch bool
	// WaitBackoff makes the read loop wait on the ReadBackoff channel.
	WaitBackoff  bool
	BackoffStuck bool
	// BackoffNil lists the non-ErrClosed errors for which ReadBackoff gave nil.
	BackoffNil []error
	// Spun tells that the read loop gave up after too many consecutive errors.
	Spun    bool
	MaxErrs int
	// LeftOpen lists ReadSlices errors (other than Persistence failures) that
	// came back with the connection in use still open: the stream position is
	// unknown after such an error, the client has to leave the connection.
	LeftOpen []string
	// StopByDisconnect makes CloseAndWait end the client with Disconnect.
	StopByDisconnect bool
}

// InstallHooks routes the library's verification points to w.
func InstallHooks(w *World) {
	f := w.OnPoint
	mqtt.VerifHook.Store(&f)
	n := func(name string, value int64) {
		w.Log(Event{Kind: "note", Note: name, N: int(value)})
	}
	mqtt.VerifNoteHook.Store(&n)
}

// NewDriver wraps a Client.
func NewDriver(w *World, c *mqtt.Client, counter *int, gen int) *Driver {
	if counter == nil {
		counter = new(int)
	}
	return &Driver{W: w, C: c, nextN: counter, Gen: gen, MaxErrs: 200}
}

// MarkerPayload builds a payload of the given size that identifies message n.
func MarkerPayload(n, size int) []byte {
	p := make([]byte, size)
	tag := fmt.Sprintf("m%06d.", n)
	for i := range p {
		if i < len(tag) {
			p[i] = tag[i]
		} else {
			p[i] = byte('a' + (i*7+n)%26)
		}
	}
	return p
}

// Publish issues a persisted publish and watches its exchange.
func (d *Driver) Publish(level int, retain bool, size int) *Pub {
	d.mu.Lock()
	*d.nextN++
	n := *d.nextN
	p := &Pub{N: n, Level: level, Retain: retain, Topic: fmt.Sprintf("t/%d/%d", level, n), Payload: MarkerPayload(n, size), Gen: d.Gen}
	d.Pubs = append(d.Pubs, p)
	d.mu.Unlock()
	return d.PublishPub(p)
}

// PublishPub issues a prepared publish.
func (d *Driver) PublishPub(p *Pub) *Pub {
	p.CallSeq = d.W.BeginCall(Event{Kind: "api.pub", ID: p.N, N: p.Level})
	var x <-chan error
	var err error
	switch {
	case p.Level == 1 && !p.Retain:
		x, err = d.C.PublishAtLeastOnce(p.Payload, p.Topic)
	case p.Level == 1:
		x, err = d.C.PublishAtLeastOnceRetained(p.Payload, p.Topic)
	case !p.Retain:
		x, err = d.C.PublishExactlyOnce(p.Payload, p.Topic)
	default:
		x, err = d.C.PublishExactlyOnceRetained(p.Payload, p.Topic)
	}
	p.Err = err
	es := ""
	if err != nil {
		es = err.Error()
	}
	// register the watcher before the return event, so that idle means watched
	if err == nil && d.NoWatch {
		p.X = x // left undrained on purpose
	} else if err == nil {
		d.W.Mu.Lock()
		d.Open++
		d.OpenByLevel[p.Level]++
		d.W.Mu.Unlock()
		d.wg.Add(1)
		go d.watch(p, x)
	}
	p.RetSeq = d.W.EndCall(Event{Kind: "api.pub.ret", ID: p.N, Err: es})
	return p
}

func (d *Driver) watch(p *Pub, x <-chan error) {
	defer d.wg.Done()
	for {
		err, ok := <-x
		d.W.Mu.Lock()
		if !ok {
			p.ClosedSeq = d.W.log(Event{Kind: "xchg.close", ID: p.N})
			d.Open--
			d.OpenByLevel[p.Level]--
			d.W.Mu.Unlock()
			d.W.cond.Broadcast()
			return
		}
		s := d.W.log(Event{Kind: "xchg.err", ID: p.N, Err: err.Error()})
		p.XErrs = append(p.XErrs, XErr{err, s})
		d.W.Mu.Unlock()
		d.W.cond.Broadcast()
		if errors.Is(err, mqtt.ErrClosed) {
			// the channel stays open by contract; keep watching briefly is pointless
			return
		}
	}
}

// Go runs a non-persisted request in its own goroutine.
func (d *Driver) Go(method string, f func() error, args ...string) *Call {
	d.mu.Lock()
	*d.nextN++
	c := &Call{N: *d.nextN, Method: method, Args: args, Done: make(chan struct{})}
	d.Calls = append(d.Calls, c)
	d.mu.Unlock()
	c.CallSeq = d.W.BeginCall(Event{Kind: "api.call", ID: c.N, Note: method})
	go func() {
		err := f()
		c.Err = err
		es := ""
		if err != nil {
			es = err.Error()
		}
		c.RetSeq = d.W.EndCall(Event{Kind: "api.ret", ID: c.N, Note: method, Err: es})
		close(c.Done)
	}()
	return c
}

// Do runs a non-persisted request synchronously.
func (d *Driver) Do(method string, f func() error, args ...string) *Call {
	c := d.Go(method, f, args...)
	<-c.Done
	return c
}

// Returned tells whether the call is over; safe from any goroutine.
func (c *Call) Returned() bool {
	select {
	case <-c.Done:
		return true
	default:
		return false
	}
}

// AllowReads grants the read loop n more ReadSlices invocations (Manual mode).
func (d *Driver) AllowReads(n int) {
	d.W.Mu.Lock()
	d.allow += n
	d.W.Mu.Unlock()
	d.W.cond.Broadcast()
}

// StartReader launches the read routine.
func (d *Driver) StartReader() {
	d.ReaderDone = make(chan struct{})
	d.W.SetReaderState("run")
	d.ReadWG.Add(1)
	go func() {
		defer d.ReadWG.Done()
		defer close(d.ReaderDone)
		defer d.W.SetReaderState("done")
		errs := 0
		for {
			if d.Manual {
				d.W.Mu.Lock()
				for d.allow == 0 {
					d.W.readerState = "paused"
					d.W.cond.Broadcast()
					d.W.cond.Wait()
				}
				d.allow--
				d.W.readerState = "run"
				d.W.Mu.Unlock()
			}
			r := &ReadRet{}
			r.CallSeq = d.W.Log(Event{Kind: "rs.call"})
			msg, topic, err := d.C.ReadSlices()
			r.Msg = append([]byte(nil), msg...)
			r.Topic = string(topic)
			r.Err = err
			var big *mqtt.BigMessage
			es := ""
			if err != nil {
				es = err.Error()
			}
			if err != nil && mqtt.IsConnectionRefused(err) {
				es = "[refused] " + es // classified here, so that no oracle reads the wording
			}
			if errors.As(err, &big) {
				r.Big = true
				r.BigSize = big.Size
				r.Topic = big.Topic
				es = fmt.Sprintf("big %d", big.Size)
			}
			r.Seq = d.W.Log(Event{Kind: "rs.ret", N: len(msg), Note: r.Topic, Err: es})
			if big != nil && (d.BigRead == nil || d.BigRead(big)) {
				r.BigRead = true
				r.Msg, r.BigErr = big.ReadAll()
				bes := ""
				if r.BigErr != nil {
					bes = r.BigErr.Error()
				}
				d.W.Log(Event{Kind: "rs.readall", N: len(r.Msg), Err: bes})
			}
			d.mu.Lock()
			d.Reads = append(d.Reads, r)
			d.mu.Unlock()
			if d.OnReturn != nil {
				d.OnReturn(r)
			}
			if err != nil && big == nil {
				if errors.Is(err, mqtt.ErrClosed) {
					return
				}
				if !errors.Is(err, ErrStore) {
					d.W.Mu.Lock()
					if cn := d.W.Cur(); cn != nil && !cn.closed {
						d.W.log(Event{Kind: "monitor", Conn: cn.Idx, Note: "ReadSlices failed yet left the connection open: " + err.Error()})
						d.mu.Lock()
						d.LeftOpen = append(d.LeftOpen, fmt.Sprintf("ReadSlices returned %q and left connection %d open and in use (inbound offset %d)", err, cn.Idx, cn.InPos))
						d.mu.Unlock()
					}
					d.W.Mu.Unlock()
				}
				t0 := time.Now() // before the call: the timer starts inside
				bo := d.C.ReadBackoff(err)
				if bo != nil && d.WaitBackoff {
					select {
					case <-bo:
						d.W.Log(Event{Kind: "backoff.waited", N: int(time.Since(t0))})
					case <-time.After(StepTimeout):
						d.W.Log(Event{Kind: "monitor", Note: "ReadBackoff channel did not close within the watchdog"})
						d.mu.Lock()
						d.BackoffStuck = true
						d.mu.Unlock()
					}
				}
				if bo == nil {
					d.W.Log(Event{Kind: "monitor", Note: "ReadBackoff returned nil for a non-ErrClosed error: " + err.Error()})
					d.mu.Lock()
					d.BackoffNil = append(d.BackoffNil, err)
					d.mu.Unlock()
				}
				errs++
				if errs > d.MaxErrs {
					d.Spun = true
					d.W.Log(Event{Kind: "monitor", Note: "read loop gave up after too many consecutive errors"})
					return
				}
			} else {
				errs = 0
			}
		}
	}()
}

// LeftOpenSnapshot returns the LeftOpen observations.
func (d *Driver) LeftOpenSnapshot() []string {
	d.mu.Lock()
	defer d.mu.Unlock()
	return append([]string(nil), d.LeftOpen...)
}

// ReadsSnapshot returns the reads so far.
func (d *Driver) ReadsSnapshot() []*ReadRet {
	d.mu.Lock()
	defer d.mu.Unlock()
	return append([]*ReadRet(nil), d.Reads...)
}

// PubsSnapshot returns the publishes so far.
func (d *Driver) PubsSnapshot() []*Pub {
	d.mu.Lock()
	defer d.mu.Unlock()
	return append([]*Pub(nil), d.Pubs...)
}

// CloseAndWait closes the Client and waits for the read routine to end.
// It reports whether that happened in time.
func (d *Driver) CloseAndWait() bool {
	done := make(chan struct{})
	go func() {
		if d.StopByDisconnect {
			d.W.Log(Event{Kind: "api.disconnect"})
			d.C.Disconnect(nil)
		} else {
			d.C.Close()
		}
		close(done)
	}()
	select {
	case <-done:
	case <-time.After(StepTimeout):
		return false
	}
	if d.Manual {
		d.AllowReads(1 << 20)
	}
	if d.ReaderDone != nil {
		select {
		case <-d.ReaderDone:
		case <-time.After(StepTimeout):
			return false
		}
	}
	return true
}

// WatchersDone waits until every exchange watcher of this driver has ended
// (exchange closed, or ErrClosed received after the client got closed).
func (d *Driver) WatchersDone(timeout time.Duration) bool {
	done := make(chan struct{})
	go func() { d.wg.Wait(); close(done) }()
	select {
	case <-done:
		return true
	case <-time.After(timeout):
		return false
	}
}

// AllClosed tells whether every accepted publish had its exchange closed;
// World.Mu must be held (use inside WaitUntil).
func (d *Driver) AllClosed() bool { return d.Open == 0 }

// GrantsUsed tells whether the read loop consumed all grants; World.Mu held.
func (d *Driver) GrantsUsed() bool { return d.allow == 0 || d.W.readerState == "done" }

// GrantIfPaused grants one ReadSlices invocation when the read loop waits for it.
func (d *Driver) GrantIfPaused() {
	d.W.Mu.Lock()
	if d.W.readerState == "paused" && d.allow == 0 {
		d.allow = 1
		d.W.log(Event{Kind: "grant"})
	}
	d.W.Mu.Unlock()
	d.W.cond.Broadcast()
}

// ReadCount returns the number of ReadSlices returns so far.
func (d *Driver) ReadCount() int {
	d.mu.Lock()
	defer d.mu.Unlock()
	return len(d.Reads)
}

// WaitWatchers gives the exchange watchers time to observe what already
// happened: every successful removal of an outbound record is followed by the
// close of an exchange, which a watcher goroutine has to pick up.
func (d *Driver) WaitWatchers(timeout time.Duration) bool {
	return d.W.WaitUntil(timeout, func() bool {
		deletes := 0
		for _, op := range d.W.Store.Ops {
			if op.Op == "delete" && !op.Err && op.Key >= 0x8000 && op.Key <= 0xffff {
				deletes++
			}
		}
		closed := 0
		d.mu.Lock()
		for _, p := range d.Pubs {
			if p.ClosedSeq != 0 {
				closed++
			}
		}
		d.mu.Unlock()
		return closed >= deletes
	})
}

// GrantWhenPaused waits for the read loop to pause (it pauses before every
// invocation in Manual mode) and grants one invocation.
func (d *Driver) GrantWhenPaused(timeout time.Duration) bool {
	ok := d.W.WaitUntil(timeout, func() bool { return d.W.readerState == "paused" || d.W.readerState == "done" })
	d.GrantIfPaused()
	return ok
}
