// Package sim holds the simulated environment of a Client under test: the
// connections handed out by the Dialer, a reference broker, an instrumented
// Persistence, and the single logical clock that orders all observations.
package sim

import (
	"bytes"
	"fmt"
	"math/rand"
	"os"
	"regexp"
	"runtime"
	"sort"
	"strings"
	"sync"
	"sync/atomic"
	"time"
)

// Event is one observation. Seq comes from the single logical clock.
type Event struct {
	Seq  int64  `json:"seq"`
	Kind string `json:"kind"`
	Conn int    `json:"conn,omitempty"`
	Who  string `json:"who,omitempty"`
	Key  uint   `json:"key,omitempty"`
	ID   int    `json:"id,omitempty"`
	N    int    `json:"n,omitempty"`
	Off  int    `json:"off,omitempty"`
	Data []byte `json:"data,omitempty"`
	Err  string `json:"err,omitempty"`
	Note string `json:"note,omitempty"`
}

func (e Event) String() string {
	s := fmt.Sprintf("#%d %s", e.Seq, e.Kind)
	if e.Conn != 0 {
		s += fmt.Sprintf(" conn=%d", e.Conn)
	}
	if e.Who != "" {
		s += " who=" + e.Who
	}
	if e.Key != 0 {
		s += fmt.Sprintf(" key=%#x", e.Key)
	}
	if e.ID != 0 {
		s += fmt.Sprintf(" id=%d", e.ID)
	}
	if e.N != 0 || e.Off != 0 {
		s += fmt.Sprintf(" n=%d off=%d", e.N, e.Off)
	}
	if len(e.Data) != 0 {
		if len(e.Data) > 24 {
			s += fmt.Sprintf(" data=%x…(%d)", e.Data[:24], len(e.Data))
		} else {
			s += fmt.Sprintf(" data=%x", e.Data)
		}
	}
	if e.Err != "" {
		s += " err=" + e.Err
	}
	if e.Note != "" {
		s += " " + e.Note
	}
	return s
}

// World is the environment of one episode.
type World struct {
	Mu   sync.Mutex
	cond *sync.Cond

	seq     int64
	effects int64 // events other than hook-point passages
	Trace   []Event
	// DataCap limits the bytes copied into Event.Data.
	DataCap int

	Rng *rand.Rand // guarded by Mu

	Conns []*Conn // index 0 is conn #1
	Dials int     // Dialer invocations so far

	// Scripts, all invoked with Mu held.
	DialPlan  func(w *World, attempt int) DialDecision
	WritePlan func(c *Conn, p []byte) WriteDecision
	ReadPlan  func(c *Conn, avail int) ReadDecision
	PointPlan func(w *World, point string, count int) PointAction
	// CloseErr is what every connection's Close returns (the connection gets
	// closed regardless).
	CloseErr error

	Broker *Broker
	Store  *Store

	// RequireDeadlines enables the deadline discipline monitor (PauseTimeout != 0).
	RequireDeadlines bool
	// Discipline violations found online.
	Online []string

	active      int // API calls in progress
	readerState string
	pointCount  map[string]int
	parked      map[string]int // point -> number of goroutines parked
	Gates       map[string]*Gate

	stopTicker chan struct{}

	// TakeSnaps enables stop-point snapshots.
	TakeSnaps bool
	Snaps     []Snap
}

// Snap is a stop point: the Persistence content and the broker state at the
// same instant.
type Snap struct {
	Seq    int64
	Store  map[uint][]byte // immutable
	Broker BrokerState
	Note   string
}

// NewWorld returns an environment with a conforming broker and an in-memory
// store.
func NewWorld(seed int64) *World {
	w := &World{DataCap: 1 << 16, Rng: rand.New(rand.NewSource(seed)), pointCount: map[string]int{}, parked: map[string]int{}, Gates: map[string]*Gate{}}
	w.cond = sync.NewCond(&w.Mu)
	w.Broker = newBroker(w)
	w.Store = newStore(w)
	w.stopTicker = make(chan struct{})
	go func() {
		t := time.NewTicker(2 * time.Millisecond)
		defer t.Stop()
		for {
			select {
			case <-t.C:
				w.cond.Broadcast()
			case <-w.stopTicker:
				return
			}
		}
	}()
	return w
}

// Shutdown stops the helper routine and opens all gates.
func (w *World) Shutdown() {
	w.Mu.Lock()
	for _, g := range w.Gates {
		g.open = true
	}
	select {
	case <-w.stopTicker:
	default:
		close(w.stopTicker)
	}
	w.Mu.Unlock()
	w.cond.Broadcast()
}

// log appends an event; Mu must be held.
func (w *World) log(e Event) int64 {
	w.seq++
	e.Seq = w.seq
	if len(e.Data) > w.DataCap {
		e.Data = e.Data[:w.DataCap]
	}
	if e.Data != nil {
		e.Data = append([]byte(nil), e.Data...)
	}
	w.Trace = append(w.Trace, e)
	if e.Kind != "point" {
		w.effects++
	}
	return e.Seq
}

// Effects counts the events other than passages of hook points: a goroutine
// that polls passes points without anything happening.
func (w *World) Effects() int64 {
	w.Mu.Lock()
	defer w.Mu.Unlock()
	return w.effects
}

// Log appends an event from outside.
func (w *World) Log(e Event) int64 {
	w.Mu.Lock()
	defer w.Mu.Unlock()
	return w.log(e)
}

// Now0 is Now with Mu held.
func (w *World) Now0() int64 { return w.seq }

// Now returns the logical clock.
func (w *World) Now() int64 {
	w.Mu.Lock()
	defer w.Mu.Unlock()
	return w.seq
}

func (w *World) snap(note string) {
	if !w.TakeSnaps {
		return
	}
	w.Snaps = append(w.Snaps, Snap{Seq: w.seq, Store: w.Store.cur, Broker: w.Broker.State.Clone(), Note: note})
}

// Gate blocks whoever waits on it until opened.
type Gate struct {
	Name    string
	open    bool
	Waiting int
}

// Gate returns the named gate, closed initially.
func (w *World) Gate(name string) *Gate {
	g := w.Gates[name]
	if g == nil {
		g = &Gate{Name: name}
		w.Gates[name] = g
	}
	return g
}

// Open releases the named gate.
func (w *World) Open(name string) {
	w.Mu.Lock()
	w.Gate(name).open = true
	w.log(Event{Kind: "gate.open", Note: name})
	w.Mu.Unlock()
	w.cond.Broadcast()
}

// waitGate blocks with Mu held until the gate opens or abort returns true.
func (w *World) waitGate(g *Gate, abort func() bool) {
	g.Waiting++
	w.cond.Broadcast()
	for !g.open && (abort == nil || !abort()) {
		w.cond.Wait()
	}
	g.Waiting--
}

// WaitUntil blocks until cond holds (evaluated with Mu held) or the timeout
// passes. It reports whether cond held.
func (w *World) WaitUntil(timeout time.Duration, cond func() bool) bool {
	deadline := time.Now().Add(timeout)
	w.Mu.Lock()
	defer w.Mu.Unlock()
	for !cond() {
		if time.Now().After(deadline) {
			return false
		}
		w.cond.Wait() // the ticker broadcasts every 2 ms
	}
	return true
}

// WaitGateWaiting blocks until n goroutines wait on the gate.
func (w *World) WaitGateWaiting(name string, n int, timeout time.Duration) bool {
	return w.WaitUntil(timeout, func() bool { return w.Gate(name).Waiting >= n })
}

// PointAction tells what to do at a hook point.
type PointAction struct {
	Yield bool
	Sleep time.Duration
	Park  string // gate name
}

// OnPoint is installed as the mqtt.VerifHook.
func (w *World) OnPoint(point string) {
	w.Mu.Lock()
	w.pointCount[point]++
	n := w.pointCount[point]
	off := 0
	ci := 0
	if len(w.Conns) != 0 {
		c := w.Conns[len(w.Conns)-1]
		off, ci = len(c.Out), c.Idx
	}
	w.log(Event{Kind: "point", Note: point, N: n, Conn: ci, Off: off})
	var act PointAction
	if w.PointPlan != nil {
		act = w.PointPlan(w, point, n)
	}
	if act.Park != "" {
		w.parked[point]++
		w.waitGate(w.Gate(act.Park), nil)
		w.parked[point]--
	}
	w.Mu.Unlock()
	if act.Yield {
		runtime.Gosched()
	}
	if act.Sleep != 0 {
		time.Sleep(act.Sleep)
	}
}

// PointCount tells how often a point was hit.
func (w *World) PointCount(point string) int {
	w.Mu.Lock()
	defer w.Mu.Unlock()
	return w.pointCount[point]
}

// BeginCall marks an API call in progress.
func (w *World) BeginCall(e Event) int64 {
	w.Mu.Lock()
	defer w.Mu.Unlock()
	w.active++
	return w.log(e)
}

// EndCall marks the return of an API call.
func (w *World) EndCall(e Event) int64 {
	w.Mu.Lock()
	w.active--
	s := w.log(e)
	w.Mu.Unlock()
	w.cond.Broadcast()
	return s
}

// SetReaderState is used by the read loop: "run", "paused", "done".
func (w *World) SetReaderState(s string) {
	w.Mu.Lock()
	w.readerState = s
	w.Mu.Unlock()
	w.cond.Broadcast()
}

// idle reports quiescence; Mu held.
func (w *World) idle() bool {
	if w.active != 0 {
		return false
	}
	switch w.readerState {
	case "paused", "done", "":
		return true
	}
	if len(w.Conns) == 0 {
		return false
	}
	c := w.Conns[len(w.Conns)-1]
	return c.readWaiting > 0 && c.avail() == 0 && !c.closed && c.pendingReadErr() == nil
}

// WaitIdle waits until no API call is in progress and the read routine is
// parked in Read on the current connection with nothing to deliver (or the read
// loop is paused or done).
func (w *World) WaitIdle(timeout time.Duration) bool {
	// need stable twice to let just-woken goroutines register
	return w.WaitUntil(timeout, func() bool { return w.idle() })
}

var durationRE = regexp.MustCompile(`(, )?\d+ minutes|0x[0-9a-f]+|\+0x[0-9a-f]+|goroutine \d+`)

// MqttStacks returns the normalised stacks of all goroutines with a frame in
// the library, sorted.
func MqttStacks() []string {
	buf := make([]byte, 1<<20)
	for {
		n := runtime.Stack(buf, true)
		if n < len(buf) {
			buf = buf[:n]
			break
		}
		buf = make([]byte, 2*len(buf))
	}
	var out []string
	for _, g := range bytes.Split(buf, []byte("\n\n")) {
		s := string(g)
		if !strings.Contains(s, "github.com/pascaldekloe/mqtt.") && !strings.Contains(s, "github.com/pascaldekloe/mqtt/mqtttest.") {
			continue
		}
		s = durationRE.ReplaceAllString(s, "")
		out = append(out, s)
	}
	sort.Strings(out)
	return out
}

// Starved measures for the given window whether this process gets processor
// time: a goroutine that sleeps 1 ms at a time must get through at least a
// quarter of its rounds. Timeouts that expire on a starved machine say nothing.
func Starved(window time.Duration) bool {
	var ticks atomic.Int64
	stop := make(chan struct{})
	go func() {
		for {
			select {
			case <-stop:
				return
			default:
			}
			time.Sleep(time.Millisecond)
			ticks.Add(1)
		}
	}()
	time.Sleep(window)
	close(stop)
	return ticks.Load() < int64(window/(4*time.Millisecond))
}

// Diagnose decides between wedged and slow after an expected condition failed
// to arrive: it compares the library goroutine stacks and the event counter
// across a window. Wedged means nothing can change any more.
func (w *World) Diagnose(window time.Duration) (wedged bool, report string) {
	s1 := MqttStacks()
	n1 := w.Effects()
	// A canary tells whether this process got processor time during the window:
	// on a starved machine nothing moves either, and that is not a wedge.
	var ticks atomic.Int64
	stop := make(chan struct{})
	go func() {
		for {
			select {
			case <-stop:
				return
			default:
			}
			time.Sleep(time.Millisecond)
			ticks.Add(1)
			runtime.Gosched()
		}
	}()
	time.Sleep(window)
	close(stop)
	s2 := MqttStacks()
	n2 := w.Effects()
	if want := int64(window / (4 * time.Millisecond)); ticks.Load() < want {
		return false, fmt.Sprintf("machine overloaded: the canary goroutine ran %d times in %v (a wedge needs at least %d)", ticks.Load(), window, want)
	}
	// No observable event over the window and the same call stacks at function
	// level: blocked for good, or spinning without effect (a goroutine caught
	// runnable at both instants inside the same functions is not progress).
	f1, f2 := funcStacks(s1), funcStacks(s2)
	same := n1 == n2 && len(f1) == len(f2)
	if same {
		for i := range f1 {
			if f1[i] != f2[i] {
				same = false
			}
		}
	}
	var b strings.Builder
	if os.Getenv("VERIF_DEBUG_DIAG") != "" {
		fmt.Printf("DIAG n1=%d n2=%d f1=%q f2=%q\n", n1, n2, f1, f2)
		fmt.Printf("DIAG same=%v\n--- first\n%s\n--- second\n%s\n", same, strings.Join(s1, "\n\n"), strings.Join(s2, "\n\n"))
		fmt.Fprintf(&b, "DIAG same=%v\n--- first\n%s\n--- second\n%s\n", same, strings.Join(s1, "\n\n"), strings.Join(s2, "\n\n"))
	}
	fmt.Fprintf(&b, "events %d→%d over %v; %d library goroutines\n", n1, n2, window, len(s2))
	for _, s := range s2 {
		b.WriteString(shortStack(s))
		b.WriteString("\n")
	}
	return same, b.String()
}

func shortStack(s string) string {
	var keep []string
	lines := strings.Split(s, "\n")
	if len(lines) > 0 {
		keep = append(keep, strings.TrimSpace(lines[0]))
	}
	for _, l := range lines[1:] {
		if strings.HasPrefix(l, "\t") {
			continue
		}
		if i := strings.LastIndex(l, "("); i > 0 {
			l = l[:i]
		}
		keep = append(keep, "  "+strings.TrimPrefix(l, "github.com/pascaldekloe/"))
		if len(keep) > 12 {
			break
		}
	}
	return strings.Join(keep, "\n")
}

// TraceTail formats the last n events.
func (w *World) TraceTail(n int) []string {
	// A caller that reports a violation with the lock in hand must not hang
	// on its own witness: give up after a while.
	deadline := time.Now().Add(2 * time.Second)
	for !w.Mu.TryLock() {
		if time.Now().After(deadline) {
			return []string{"(trace unavailable: the world lock was held when the violation was reported)"}
		}
		time.Sleep(200 * time.Microsecond)
	}
	defer w.Mu.Unlock()
	t := w.Trace
	if len(t) > n {
		t = t[len(t)-n:]
	}
	out := make([]string, len(t))
	for i, e := range t {
		out[i] = e.String()
	}
	return out
}

// PointCountLocked is PointCount with Mu held.
func (w *World) PointCountLocked(point string) int { return w.pointCount[point] }

// readerQuiet: the read routine is paused, done, or parked in Read; Mu held.
func (w *World) readerQuiet() bool {
	switch w.readerState {
	case "paused", "done", "":
		return true
	}
	return w.readerParked()
}

func (w *World) readerParked() bool {
	if w.readerState != "run" || len(w.Conns) == 0 {
		return false
	}
	c := w.Conns[len(w.Conns)-1]
	return c.readWaiting > 0 && c.avail() == 0 && !c.closed && c.pendingReadErr() == nil && !c.pendingStall
}

// ReaderParked0 is ReaderParked with Mu held: the read routine is inside a
// ReadSlices invocation (state "run"), whether blocked in Read or busy.
func (w *World) ReaderParked0() bool { return w.readerState == "run" }

// ReaderParked tells whether the read routine sits in Read with nothing to
// deliver, i.e. inside a ReadSlices invocation.
func (w *World) ReaderParked() bool {
	w.Mu.Lock()
	defer w.Mu.Unlock()
	return w.readerParked()
}

// WaitReaderQuiet waits until the read routine is paused, done or parked,
// regardless of other calls in progress.
func (w *World) WaitReaderQuiet(timeout time.Duration) bool {
	return w.WaitUntil(timeout, w.readerQuiet)
}

// ReaderQuietLocked is readerQuiet for use inside WaitUntil.
func (w *World) ReaderQuietLocked() bool { return w.readerQuiet() }

// ResetGate closes the named gate again.
func (w *World) ResetGate(name string) {
	w.Mu.Lock()
	w.Gate(name).open = false
	w.Mu.Unlock()
}

var lineRE = regexp.MustCompile(`(?m)^\t.*$\n?|^ ?\[[^\]]*\]:`)

// funcStacks reduces normalised stacks to their function names.
func funcStacks(stacks []string) []string {
	out := make([]string, len(stacks))
	for i, s := range stacks {
		out[i] = lineRE.ReplaceAllString(s, "")
	}
	sort.Strings(out)
	return out
}
