// Package fsops holds what the C19 runner and its child process share: the
// scripted operations and the deterministic values.
package fsops

import "net"

// Op is one scripted operation on the store.
type Op struct {
	Op   string `json:"op"` // save, delete
	Key  uint   `json:"key"`
	Size int    `json:"size"`
	Seed int    `json:"seed"`
	Bufs int    `json:"bufs"` // number of buffers the value is split into
}

// Bytes builds the deterministic content of a Save.
func Bytes(o Op) []byte {
	b := make([]byte, o.Size)
	x := uint32(o.Seed)*2654435761 + 12345
	for i := range b {
		x = x*1664525 + 1013904223
		b[i] = byte(x >> 24)
	}
	return b
}

// Value splits the content into the scripted number of buffers.
func Value(o Op) net.Buffers {
	b := Bytes(o)
	n := o.Bufs
	if n < 1 {
		n = 1
	}
	var out net.Buffers
	for i := 0; i < n; i++ {
		lo, hi := len(b)*i/n, len(b)*(i+1)/n
		out = append(out, b[lo:hi:hi])
	}
	return out
}

// Entry is the state of one listed key as a fresh process sees it.
type Entry struct {
	Key    uint   `json:"key"`
	Len    int    `json:"len"`
	Sum    string `json:"sum"`
	Absent bool   `json:"absent,omitempty"` // listed, yet Load returned nil
	Err    string `json:"err,omitempty"`
}

// Verdict is the output of the verify mode.
type Verdict struct {
	ListError string   `json:"list_error,omitempty"`
	Entries   []Entry  `json:"entries"`
	Files     []string `json:"files"`
}
