module verif

go 1.23

require (
	github.com/anishathalye/porcupine v1.3.0
	github.com/pascaldekloe/mqtt v0.0.0
)

replace github.com/pascaldekloe/mqtt => /repo
