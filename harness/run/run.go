// Package run is the check runner: it executes the cases of a property in
// child processes, merges what the monitors observed, applies the known
// findings and writes the evidence.
package run

import (
	"bufio"
	"crypto/sha256"
	"encoding/json"
	"fmt"
	"math/rand"
	"os"
	"os/exec"
	"path/filepath"
	"runtime"
	"sort"
	"strconv"
	"strings"
	"sync"
	"time"
)

// Root is the /verif directory.
var Root = "/verif"

// Prop describes the check of one property.
type Prop struct {
	ID    string
	Level string // evidence level
	// Cases returns the number of cases per tier.
	Cases func(tier string) int
	// Run executes one case.
	Run func(c *Ctx)
	// Rule explains generation and what counts as non-trivial.
	Rule        string
	Assumptions []string
	// ChunkSize is the number of cases per child process.
	ChunkSize int
	// Parallel limits the number of children (0 = number of CPUs).
	Parallel int
	// Exhaustive is reported when the case list enumerates a finite space.
	Exhaustive bool
	// MinTriggers is the least number of non-trivial cases for a pass.
	MinTriggers int
	// ChildTimeout overrides the watchdog of one child process, in seconds.
	ChildTimeout int
	// Finish may add evidence that is global to the run.
	Finish func(tier string, cov map[string]any)
	// Extra runs once per check after the cases (e.g. a coverage-guided
	// fuzzing session); what it returns is merged like a case.
	Extra func(tier string, seed int64) *CaseResult
}

var registry = map[string]*Prop{}

// Register adds a property check.
func Register(p *Prop) { registry[p.ID] = p }

// Violation is a monitor's witness.
type Violation struct {
	Sig    string `json:"signature"`
	Msg    string `json:"message"`
	Case   int    `json:"case"`
	Detail any    `json:"detail,omitempty"`
}

// CaseResult is what one case observed.
type CaseResult struct {
	Case         int            `json:"case"`
	Violations   []Violation    `json:"violations,omitempty"`
	Shapes       []string       `json:"shapes,omitempty"`
	Counts       map[string]int `json:"counts,omitempty"`
	Samples      []any          `json:"samples,omitempty"`
	Inconclusive []string       `json:"inconclusive,omitempty"`
	Restart      bool           `json:"restart,omitempty"` // process state is spoiled
}

// Ctx is handed to Prop.Run.
type Ctx struct {
	Prop    string
	Tier    string
	Seed    int64
	Case    int
	Rng     *rand.Rand
	Verbose bool
	res     *CaseResult
}

// NewCtx returns a context outside the runner (fuzz targets, tests).
func NewCtx(prop, tier string, seed int64) *Ctx {
	return &Ctx{Prop: prop, Tier: tier, Seed: seed, Rng: rand.New(rand.NewSource(seed)), res: &CaseResult{}}
}

// Result returns what the case recorded so far.
func (c *Ctx) Result() *CaseResult { return c.res }

// Violate records a violation. Sig must be a stable description of the
// failing class (call site, input class), msg the specifics.
func (c *Ctx) Violate(sig, msg string, detail any) {
	c.res.Violations = append(c.res.Violations, Violation{Sig: sig, Msg: msg, Case: c.Case, Detail: detail})
	if c.Verbose {
		fmt.Printf("violation [%s] %s\n", sig, msg)
		if detail != nil {
			b, _ := json.MarshalIndent(detail, "", " ")
			fmt.Println(string(b))
		}
	}
}

// Trigger marks the case as non-trivial with an abstract shape.
func (c *Ctx) Trigger(shape string) { c.res.Shapes = append(c.res.Shapes, shape) }

// Count adds to a named counter.
func (c *Ctx) Count(name string, n int) {
	if c.res.Counts == nil {
		c.res.Counts = map[string]int{}
	}
	c.res.Counts[name] += n
}

// Sample keeps an example for the evidence file.
func (c *Ctx) Sample(v any) {
	if len(c.res.Samples) < 2 {
		c.res.Samples = append(c.res.Samples, v)
	}
}

// Inconclusive records that the case could not be decided.
func (c *Ctx) Inconclusive(msg string) {
	msg = fmt.Sprintf("case %d: %s", c.Case, msg)
	c.res.Inconclusive = append(c.res.Inconclusive, msg)
	if c.Verbose {
		fmt.Println("inconclusive:", msg)
	}
}

// Spoiled tells the runner that goroutines are stuck; the child restarts.
func (c *Ctx) Spoiled() { c.res.Restart = true }

// Logf prints in verbose (replay) mode.
func (c *Ctx) Logf(format string, a ...any) {
	if c.Verbose {
		fmt.Printf(format+"\n", a...)
	}
}

func caseSeed(seed int64, prop string, i int) int64 {
	h := sha256.Sum256([]byte(fmt.Sprintf("%d/%s/%d", seed, prop, i)))
	var s int64
	for _, b := range h[:8] {
		s = s<<8 | int64(b)
	}
	return s
}

func runCase(p *Prop, tier string, seed int64, i int, verbose bool) *CaseResult {
	res := &CaseResult{Case: i}
	ctx := &Ctx{Prop: p.ID, Tier: tier, Seed: seed, Case: i, Rng: rand.New(rand.NewSource(caseSeed(seed, p.ID, i))), Verbose: verbose, res: res}
	p.Run(ctx)
	return res
}

// Child runs cases [from,to) and appends results to out.
func Child(id, tier string, seed int64, from, to int, out string) int {
	p := registry[id]
	if p == nil {
		fmt.Fprintln(os.Stderr, "unknown property", id)
		return 2
	}
	f, err := os.OpenFile(out, os.O_APPEND|os.O_CREATE|os.O_WRONLY, 0o644)
	if err != nil {
		fmt.Fprintln(os.Stderr, err)
		return 2
	}
	defer f.Close()
	for i := from; i < to; i++ {
		fmt.Fprintf(f, "START %d\n", i)
		res := runCase(p, tier, seed, i, false)
		b, err := json.Marshal(res)
		if err != nil {
			// detail not serialisable
			for j := range res.Violations {
				res.Violations[j].Detail = fmt.Sprint(res.Violations[j].Detail)
			}
			res.Samples = nil
			b, _ = json.Marshal(res)
		}
		fmt.Fprintf(f, "RESULT %s\n", b)
		if res.Restart {
			return 3
		}
	}
	return 0
}

type finding struct {
	Property  string `json:"property"`
	Signature string `json:"signature"`
	What      string `json:"what"`
}

type findingsFile struct {
	Findings []finding `json:"findings"`
	Fixed    []string  `json:"fixed"`
}

func loadFindings() findingsFile {
	var ff findingsFile
	b, err := os.ReadFile(filepath.Join(Root, "known_findings.json"))
	if err == nil {
		json.Unmarshal(b, &ff)
	}
	return ff
}

// Main runs a property check and returns the exit code.
func Main(id, tier string, seed int64, self string) int {
	p := registry[id]
	if p == nil {
		fmt.Println("HARNESS-ERROR unknown property", id)
		return 2
	}
	start := time.Now()
	total := p.Cases(tier)
	chunk := p.ChunkSize
	if chunk <= 0 {
		chunk = 50
	}
	par := p.Parallel
	if par <= 0 {
		par = runtime.NumCPU()
	}
	// (two runs of one property at a time must not share their files)
	work := filepath.Join(Root, "work", fmt.Sprintf("%s-%d", id, os.Getpid()))
	os.RemoveAll(work)
	os.MkdirAll(work, 0o755)
	defer os.RemoveAll(work)

	type job struct{ from, to int }
	jobs := make(chan job, total/chunk+2)
	for a := 0; a < total; a += chunk {
		b := a + chunk
		if b > total {
			b = total
		}
		jobs <- job{a, b}
	}
	close(jobs)

	var mu sync.Mutex
	var results []*CaseResult
	var harnessErrs []string
	violating, skipped := 0, 0
	ffKnown := loadFindings()
	// fresh tells whether a case has a violation that is not a known finding
	fresh := func(r *CaseResult) bool {
		for _, v := range r.Violations {
			known := false
			for _, f := range ffKnown.Findings {
				if f.Property == id && f.Signature == v.Sig {
					known = true
				}
			}
			if !known {
				return true
			}
		}
		return false
	}
	var wg sync.WaitGroup
	for k := 0; k < par; k++ {
		wg.Add(1)
		go func(k int) {
			defer wg.Done()
			for j := range jobs {
				from := j.from
				for from < j.to {
					mu.Lock()
					stop := violating >= 4
					mu.Unlock()
					if stop {
						// the verdict is settled; do not spend the budget on more witnesses
						mu.Lock()
						skipped += j.to - from
						mu.Unlock()
						break
					}
					out := filepath.Join(work, fmt.Sprintf("r-%d-%d.log", from, j.to))
					errFile := out + ".stderr"
					ef, _ := os.Create(errFile)
					// timeout -s QUIT leaves a goroutine dump behind on hangs
					secs := 90 + 3*(j.to-from)
					if p.ChildTimeout != 0 {
						secs = p.ChildTimeout
					}
					cmd := exec.Command("timeout", "-s", "QUIT", strconv.Itoa(secs), self, "-child", "-prop", id, "-tier", tier, "-seed", strconv.FormatInt(seed, 10), "-from", strconv.Itoa(from), "-to", strconv.Itoa(j.to), "-out", out)
					cmd.Stdout = ef
					cmd.Stderr = ef
					cmd.Env = append(os.Environ(), "GORACE=halt_on_error=1 exitcode=66", "GOTRACEBACK=all")
					err := cmd.Run()
					ef.Close()
					code := 0
					if err != nil {
						if ee, ok := err.(*exec.ExitError); ok {
							code = ee.ExitCode()
						} else {
							code = -1
						}
					}
					rs, started := readResults(out)
					mu.Lock()
					results = append(results, rs...)
					for _, r := range rs {
						if fresh(r) {
							violating++
						}
					}
					mu.Unlock()
					next := from + len(rs)
					switch {
					case code == 0:
						next = j.to
					case code == 3:
						// restart requested after the last result
					default:
						// crash or hang in case `started`
						stderr, _ := os.ReadFile(errFile)
						tail := string(stderr)
						if len(tail) > 6000 {
							tail = tail[:3000] + "\n…\n" + tail[len(tail)-3000:]
						}
						cr := &CaseResult{Case: started}
						kind := classifyCrash(string(stderr), code)
						if kind == "harness" || started < 0 {
							mu.Lock()
							harnessErrs = append(harnessErrs, fmt.Sprintf("child for cases %d–%d exited %d: %s", from, j.to, code, firstLines(tail, 12)))
							mu.Unlock()
						} else {
							cr.Violations = []Violation{{Sig: kind, Msg: fmt.Sprintf("child process died with exit code %d in case %d", code, started), Case: started, Detail: map[string]any{"stderr": tail}}}
							mu.Lock()
							results = append(results, cr)
							violating++
							mu.Unlock()
						}
						if started >= 0 {
							next = started + 1
						} else {
							next = j.to
						}
					}
					os.Remove(out)
					os.Remove(errFile)
					if next <= from {
						next = from + 1
					}
					from = next
				}
			}
		}(k)
	}
	wg.Wait()
	if p.Extra != nil && violating == 0 {
		if r := p.Extra(tier, seed); r != nil {
			r.Case = total
			results = append(results, r)
			total++
		}
	}
	sort.Slice(results, func(i, j int) bool { return results[i].Case < results[j].Case })
	return report(p, tier, seed, total-skipped, results, harnessErrs, time.Since(start))
}

func firstLines(s string, n int) string {
	l := strings.SplitN(s, "\n", n+1)
	if len(l) > n {
		l = l[:n]
	}
	return strings.Join(l, " | ")
}

// classifyCrash tells a library failure from a harness failure by the frames
// of the panicking goroutine.
func classifyCrash(stderr string, code int) string {
	switch {
	case strings.Contains(stderr, "WARNING: DATA RACE"):
		blk := stderr[strings.Index(stderr, "WARNING: DATA RACE"):]
		if raceInLibrary(blk) {
			return "data-race/" + raceSig(blk)
		}
		return "harness"
	case strings.Contains(stderr, "panic:") || strings.Contains(stderr, "fatal error:"):
		i := strings.Index(stderr, "panic:")
		if i < 0 {
			i = strings.Index(stderr, "fatal error:")
		}
		blk := stderr[i:]
		// first goroutine block after the panic line is the culprit
		if j := strings.Index(blk, "\n\ngoroutine "); j >= 0 {
			k := strings.Index(blk[j+2:], "\n\n")
			if k > 0 {
				blk = blk[:j+2+k]
			}
		}
		if strings.Contains(blk, "github.com/pascaldekloe/mqtt.") || strings.Contains(blk, "github.com/pascaldekloe/mqtt/mqtttest.") {
			line := firstLines(stderr[i:], 1)
			if len(line) > 80 {
				line = line[:80]
			}
			return "panic/" + line
		}
		return "harness"
	case code == 124 || strings.Contains(stderr, "SIGQUIT"):
		return "hang/child-watchdog"
	}
	return "harness"
}

// raceInLibrary tells whether one of the two conflicting accesses of a race
// report happened in library code (its innermost non-runtime frame). A race
// between two accesses inside the harness is the harness's own, also when the
// library sits further up one of the stacks.
func raceInLibrary(blk string) bool {
	lines := strings.Split(blk, "\n")
	for i, l := range lines {
		t := strings.TrimSpace(l)
		isAccess := strings.HasPrefix(t, "Read at ") || strings.HasPrefix(t, "Write at ") || strings.HasPrefix(t, "Previous read at ") || strings.HasPrefix(t, "Previous write at ") || strings.HasPrefix(t, "Atomic ") || strings.HasPrefix(t, "Previous atomic ")
		if !isAccess {
			continue
		}
		for _, f := range lines[i+1:] {
			f = strings.TrimSpace(f)
			if f == "" {
				break
			}
			if strings.HasPrefix(f, "/") {
				continue // file and line
			}
			if strings.HasPrefix(f, "github.com/pascaldekloe/mqtt.") || strings.HasPrefix(f, "github.com/pascaldekloe/mqtt/mqtttest.") {
				return true
			}
			if strings.HasPrefix(f, "verif/") || strings.HasPrefix(f, "main.") || strings.HasPrefix(f, "github.com/") {
				break // the harness (or its checker library) made the access
			}
			// standard library frame: look further up
		}
	}
	return false
}

func raceSig(blk string) string {
	// outermost library frames of both stacks
	var fr []string
	for _, l := range strings.Split(blk, "\n") {
		l = strings.TrimSpace(l)
		if strings.HasPrefix(l, "github.com/pascaldekloe/mqtt.") {
			if i := strings.Index(l, "("); i > 0 {
				l = l[:i]
			}
			fr = append(fr, strings.TrimPrefix(l, "github.com/pascaldekloe/mqtt."))
		}
		if strings.HasPrefix(l, "====") && len(fr) > 0 {
			break
		}
	}
	if len(fr) > 2 {
		fr = []string{fr[0], fr[len(fr)-1]}
	}
	return strings.Join(fr, "~")
}

func readResults(path string) (rs []*CaseResult, started int) {
	started = -1
	f, err := os.Open(path)
	if err != nil {
		return nil, -1
	}
	defer f.Close()
	sc := bufio.NewScanner(f)
	sc.Buffer(make([]byte, 1<<20), 1<<28)
	for sc.Scan() {
		line := sc.Text()
		switch {
		case strings.HasPrefix(line, "START "):
			started, _ = strconv.Atoi(line[6:])
		case strings.HasPrefix(line, "RESULT "):
			var r CaseResult
			if json.Unmarshal([]byte(line[7:]), &r) == nil {
				rs = append(rs, &r)
				started = -1
			}
		}
	}
	return
}

func report(p *Prop, tier string, seed int64, total int, results []*CaseResult, harnessErrs []string, wall time.Duration) int {
	ff := loadFindings()
	shapes := map[string]int{}
	counts := map[string]int{}
	var samples []any
	var incon []string
	nontrivial := 0
	type vio struct {
		v     Violation
		known *finding
	}
	var vios []vio
	for _, r := range results {
		if len(r.Shapes) != 0 {
			nontrivial++
		}
		for _, s := range r.Shapes {
			shapes[s]++
		}
		for k, n := range r.Counts {
			counts[k] += n
		}
		if len(samples) < 4 {
			samples = append(samples, r.Samples...)
		}
		incon = append(incon, r.Inconclusive...)
		for _, v := range r.Violations {
			var known *finding
			for i := range ff.Findings {
				f := &ff.Findings[i]
				if f.Property == p.ID && f.Signature == v.Sig {
					known = f
				}
			}
			vios = append(vios, vio{v, known})
		}
	}
	if len(samples) == 0 {
		samples = append(samples, "no sample recorded")
	}

	exit := 0
	// replay files
	os.MkdirAll(filepath.Join(Root, "replay"), 0o755)
	newSigs := map[string]bool{}
	knownSigs := map[string]bool{}
	nviol := 0
	for _, v := range vios {
		if v.known != nil {
			if !knownSigs[v.v.Sig] {
				knownSigs[v.v.Sig] = true
				fmt.Printf("KNOWN-FINDING: property=%s %s\n", p.ID, v.known.What)
			}
			continue
		}
		nviol++
		if newSigs[v.v.Sig] {
			continue
		}
		newSigs[v.v.Sig] = true
		h := sha256.Sum256([]byte(v.v.Sig))
		path := filepath.Join(Root, "replay", fmt.Sprintf("%s-%x.json", p.ID, h[:5]))
		b, _ := json.MarshalIndent(map[string]any{"property": p.ID, "tier": tier, "seed": seed, "case": v.v.Case, "signature": v.v.Sig, "message": v.v.Msg, "detail": v.v.Detail}, "", " ")
		os.WriteFile(path, b, 0o644)
		fmt.Printf("VIOLATION property=%s replay=%s\n", p.ID, path)
		fmt.Printf("  [%s] %s (case %d)\n", v.v.Sig, v.v.Msg, v.v.Case)
		exit = 1
	}

	minTrig := p.MinTriggers
	if minTrig == 0 {
		minTrig = 2
	}
	if exit == 0 {
		for _, e := range harnessErrs {
			fmt.Println("HARNESS-ERROR", e)
			exit = 2
		}
		if len(results) < total && exit == 0 {
			fmt.Printf("HARNESS-ERROR only %d of %d cases produced a result\n", len(results), total)
			exit = 2
		}
		if len(shapes) < minTrig && exit == 0 {
			fmt.Printf("HARNESS-ERROR monitors observed too little: %d distinct non-trivial cases, need %d\n", len(shapes), minTrig)
			exit = 2
		}
	}

	cov := map[string]any{
		"evaluations":         len(results),
		"distinct_nontrivial": len(shapes),
		"nontrivial_cases":    nontrivial,
		"rule":                p.Rule,
		"samples":             samples,
		"monitor_counters":    counts,
		"inconclusive_cases":  len(incon),
	}
	if len(incon) > 0 {
		cov["inconclusive_examples"] = incon[:min(3, len(incon))]
	}
	if p.Exhaustive {
		cov["exhaustive"] = true
	}
	// a few shapes for the reader
	var sh []string
	for s := range shapes {
		sh = append(sh, s)
	}
	sort.Strings(sh)
	if len(sh) > 12 {
		sh = sh[:12]
	}
	cov["shape_examples"] = sh
	if p.Finish != nil {
		p.Finish(tier, cov)
	}
	ev := map[string]any{
		"property_id": p.ID,
		"tier":        tier,
		"seed":        seed,
		"level":       p.Level,
		"coverage":    cov,
		"assumptions": p.Assumptions,
		"wall_s":      wall.Seconds(),
		"violations":  nviol,
	}
	os.MkdirAll(filepath.Join(Root, "evidence"), 0o755)
	b, _ := json.MarshalIndent(ev, "", " ")
	os.WriteFile(filepath.Join(Root, "evidence", p.ID+".json"), b, 0o644)

	verdict := "held"
	if exit == 1 {
		verdict = "VIOLATED"
	} else if exit == 2 {
		verdict = "harness error"
	}
	fmt.Printf("%s %s: %s on %d cases (%d non-trivial, %d distinct shapes, %d inconclusive) in %.1fs\n", p.ID, tier, verdict, len(results), nontrivial, len(shapes), len(incon), wall.Seconds())
	return exit
}

// Replay runs the case of a replay file in-process with verbose output.
func Replay(id, path string) int {
	p := registry[id]
	if p == nil {
		fmt.Println("unknown property", id)
		return 2
	}
	b, err := os.ReadFile(path)
	if err != nil {
		fmt.Println(err)
		return 2
	}
	var r struct {
		Tier string `json:"tier"`
		Seed int64  `json:"seed"`
		Case int    `json:"case"`
	}
	if err := json.Unmarshal(b, &r); err != nil {
		fmt.Println(err)
		return 2
	}
	res := runCase(p, r.Tier, r.Seed, r.Case, true)
	if len(res.Violations) != 0 {
		fmt.Printf("VIOLATION property=%s replay=%s\n", id, path)
		return 1
	}
	fmt.Println("no violation on replay (schedules may differ; the file holds the witness)")
	return 0
}

// One runs a single case in-process, verbose (development aid).
func One(id, tier string, seed int64, i int) int {
	p := registry[id]
	res := runCase(p, tier, seed, i, true)
	b, _ := json.MarshalIndent(res, "", " ")
	fmt.Println(string(b))
	if len(res.Violations) != 0 {
		return 1
	}
	return 0
}
