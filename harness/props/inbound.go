package props

import (
	"errors"
	"fmt"
	"io"
	"math/rand"
	"strconv"
	"strings"
	"time"

	"github.com/pascaldekloe/mqtt"

	"verif/run"
	"verif/sim"
	"verif/wire"
)

// inboundParams steers the reception workload shared by C04 and C07.
type inboundParams struct {
	Steps     int
	Levels    []byte
	BufSize   int     // read buffer; 0 keeps the default
	PBig      float64 // message beyond the buffer
	PCompete  float64 // concurrent outbound requests during a pause
	PBreak    float64 // connection loss at a step
	PLostAck  float64 // the client's next write is accepted and lost
	PRestart  float64 // stop and AdoptSession
	PStoreErr float64 // transient marker Save/Delete/Load error
	PReuse    float64
	// PLoseSession: the broker forgets the session at a connection loss (not
	// for C04, whose messages must all arrive)
	PLoseSession float64
	// PViolate: instead of a plain loss the broker ends a connection with a
	// PUBLISH under the packet identifier zero
	PViolate float64
}

type inMsg struct {
	N       int
	QoS     byte
	Topic   string
	Payload []byte
	Out     *sim.OutMsg
	SentSeq int64
}

type inboundRun struct {
	c   *run.Ctx
	ep  *Episode
	W   *sim.World
	gen int

	msgs     []*inMsg
	allReads []genRead
	drivers  []*sim.Driver
	calls    []*sim.Call
	restarts int
	breaks   int
	lostAcks int
	storeErr int
	competed int
	bigCuts  int
	viol     bool

	violations       int
	competitorFailed int
	sessionsLost     int
	sessionLostAt    []int64
}

type genRead struct {
	Gen int
	R   *sim.ReadRet
}

func inTopic(n int, qos byte) string { return fmt.Sprintf("in/%d/%d", qos, n) }

func inMarker(topic string) int {
	parts := strings.Split(topic, "/")
	if len(parts) != 3 || parts[0] != "in" {
		return 0
	}
	n, _ := strconv.Atoi(parts[2])
	return n
}

// step lets the read routine do one ReadSlices and waits until it returned
// and paused again, or parked in Read.
func (ir *inboundRun) step() bool {
	d := ir.ep.D
	// a grant is only of use to a paused read loop; one that sits inside an
	// invocation (parked in Read) continues by itself
	d.GrantIfPaused()
	quiet := func() bool { return d.GrantsUsed() && ir.W.ReaderQuietLocked() }
	if ir.W.WaitUntil(sim.StepTimeout, quiet) {
		return true
	}
	wedged, report := ir.W.Diagnose(1500 * time.Millisecond)
	if ir.W.WaitUntil(time.Millisecond, quiet) {
		return true
	}
	if wedged {
		ir.c.Violate("read-routine-stuck", "ReadSlices neither returned nor parked in Read", map[string]any{"report": report, "trace_tail": ir.W.TraceTail(traceN(ir.c))})
	} else {
		ir.c.Inconclusive("ReadSlices slow: " + firstLine(report))
	}
	ir.c.Spoiled()
	ir.viol = true
	return false
}

func (ir *inboundRun) collect() {
	for _, r := range ir.ep.D.ReadsSnapshot() {
		ir.allReads = append(ir.allReads, genRead{ir.gen, r})
	}
}

// runInbound executes the workload and leaves the trace for the oracles.
func runInbound(c *run.Ctx, ip inboundParams) *inboundRun {
	ep := newEpisode(c)
	ir := &inboundRun{c: c, ep: ep, W: ep.W}
	w := ep.W
	if ip.BufSize != 0 {
		mqtt.VerifSetReadBufSize(ip.BufSize)
	}
	bufSize := mqtt.VerifReadBufSize()
	if err := ep.Init(); err != nil {
		c.Violate("init-failed", err.Error(), nil)
		ir.viol = true
		return ir
	}
	// faults are placed by the step script, not by probabilities
	w.Mu.Lock()
	ep.F.Off = true
	loseNext := false
	failNext := 0 // 1: the next acknowledgement write fails, 2: the next write of anybody
	w.WritePlan = func(cn *sim.Conn, p []byte) sim.WriteDecision {
		isAck := len(p) >= 4 && (p[0]>>4 == wire.PUBACK || p[0]>>4 == wire.PUBREC || p[0]>>4 == wire.PUBCOMP)
		if failNext == 2 || failNext == 1 && isAck {
			failNext = 0
			return sim.WriteDecision{Accept: w.Rng.Intn(len(p)), Then: "error"}
		}
		if loseNext && len(p) >= 4 && (p[0]>>4 == wire.PUBACK || p[0]>>4 == wire.PUBREC || p[0]>>4 == wire.PUBCOMP) {
			loseNext = false
			cn.EndInboundLocked(-1, &netReset{})
			return sim.WriteDecision{Accept: -1, Blackhole: true}
		}
		return sim.WriteDecision{Accept: -1}
	}
	failStore := 0
	w.Store.Fail = func(op string, key uint, n int) bool {
		if failStore > 0 && key >= 0x10000 && op != "list" {
			failStore--
			return true
		}
		return false
	}
	w.Mu.Unlock()
	bigRng := rand.New(rand.NewSource(c.Rng.Int63())) // the read routine's own
	w.Mu.Lock()
	w.Broker.ReuseIDs = c.Rng.Float64() < ip.PReuse
	// the broker's identifiers may coincide with the client's own (0x8000…, 0xc000…)
	w.Broker.IDBase = []uint16{1, 1, 1, 0x7ffe, 0x8000, 0xc000, 0xfffd}[c.Rng.Intn(7)]
	w.Broker.State.NextID = w.Broker.IDBase
	w.Mu.Unlock()
	ep.D.Manual = true
	ep.D.BigRead = func(b *mqtt.BigMessage) bool { return bigRng.Intn(3) != 0 }
	ep.D.StartReader()
	ir.drivers = append(ir.drivers, ep.D)

	lastStoreErr := false
	n := 0
	for s := 0; s < ip.Steps && !ir.viol; s++ {
		r := c.Rng.Float64()
		switch {
		case r < 0.40: // the broker sends
			n++
			qos := ip.Levels[c.Rng.Intn(len(ip.Levels))]
			size := c.Rng.Intn(40)
			if c.Rng.Float64() < ip.PBig {
				size = bufSize + c.Rng.Intn(bufSize)
			}
			m := &inMsg{N: n, QoS: qos, Topic: inTopic(n, qos), Payload: sim.MarkerPayload(n, size)}
			var before int
			cn := w.CurConn()
			if cn != nil {
				before = cn.InLen()
			}
			m.Out = w.Broker.Publish(m.Topic, m.Payload, qos, false)
			m.SentSeq = w.Now()
			ir.msgs = append(ir.msgs, m)
			if size >= bufSize && cn != nil && c.Rng.Float64() < ip.PBreak*4 {
				// the connection dies inside the payload, beyond what the read buffer
				// takes: the message comes out as a BigMessage that can not be had in full
				if after := cn.InLen(); after-before > bufSize+8 {
					cut := before + bufSize + 8 + c.Rng.Intn(after-before-bufSize-8)
					if c.Rng.Intn(2) == 0 {
						cn.EndInbound(cut, io.EOF)
					} else {
						cn.EndInbound(cut, &netReset{})
					}
					ir.breaks++
					ir.bigCuts++
				}
			}
		case r < 0.75:
			if !ir.step() {
				break
			}
			reads := ep.D.ReadsSnapshot()
			lastStoreErr = false
			if len(reads) > 0 {
				if e := reads[len(reads)-1].Err; e != nil && errors.Is(e, sim.ErrStore) {
					lastStoreErr = true
				}
			}
		case r < 0.75+ip.PCompete:
			// outbound requests competing for the connection while the
			// application holds the previous return
			ir.competed++
			d := ep.D
			if c.Rng.Intn(4) == 0 {
				// that request's own write fails: the connection is set pending by
				// somebody else than the read routine, which still owes what it owes
				w.Mu.Lock()
				failNext = 2
				w.Mu.Unlock()
				ir.competitorFailed++
			}
			switch c.Rng.Intn(4) {
			case 0:
				ir.calls = append(ir.calls, d.Go("Publish", func() error { return d.C.Publish(nil, []byte("x"), "out/0") }))
			case 1:
				ir.calls = append(ir.calls, d.Go("Ping", func() error { return d.C.Ping(nil) }))
			case 2:
				ir.calls = append(ir.calls, d.Go("Subscribe", func() error { return d.C.Subscribe(nil, "f/"+fmt.Sprint(s)) }))
			default:
				d.Publish(1+c.Rng.Intn(2), false, 5)
			}
		case r < 0.75+ip.PCompete+ip.PBreak:
			if cn := w.CurConn(); cn != nil {
				ir.breaks++
				if c.Rng.Float64() < ip.PViolate {
					// not a plain loss but a violation: a PUBLISH under the reserved identifier
					// zero ends the connection; nothing of it may get acknowledged
					cn.Send(wire.Publish("bad/id/zero", []byte("never delivered"), byte(1+c.Rng.Intn(2)), 0, false, false), "PUBLISH with identifier zero")
					ir.violations++
				}
				if c.Rng.Intn(2) == 0 {
					cn.EndInbound(-1, io.EOF)
				} else {
					cn.EndInbound(-1, &netReset{})
				}
				if c.Rng.Float64() < ip.PLoseSession {
					// the broker comes back without the session: what the
					// client owes it still goes out on the next connection
					w.Broker.LoseSession()
					ir.sessionsLost++
					ir.sessionLostAt = append(ir.sessionLostAt, w.Now())
				}
			}
		case r < 0.75+ip.PCompete+ip.PBreak+ip.PLostAck:
			w.Mu.Lock()
			switch c.Rng.Intn(3) {
			case 0:
				loseNext = true
			case 1:
				failNext = 1
			default:
				failNext = 2
			}
			w.Mu.Unlock()
			ir.lostAcks++
		case r < 0.75+ip.PCompete+ip.PBreak+ip.PLostAck+ip.PStoreErr:
			w.Mu.Lock()
			failStore = 1 + c.Rng.Intn(2)
			w.Mu.Unlock()
			ir.storeErr++
		case r < 0.75+ip.PCompete+ip.PBreak+ip.PLostAck+ip.PStoreErr+ip.PRestart:
			if lastStoreErr {
				continue // the documented BUG combination is excluded
			}
			w.Mu.Lock()
			pendingFail := failStore
			w.Mu.Unlock()
			if pendingFail > 0 {
				continue
			}
			// stop: the process state is gone, the Persistence stays; the
			// application may hold a message while another goroutine ends the client
			ep.D.StopByDisconnect = c.Rng.Intn(2) == 0
			if !ep.D.CloseAndWait() {
				c.Violate("close-stuck", "Close did not end the client at a stop", nil)
				c.Spoiled()
				ir.viol = true
				break
			}
			ir.collect() // includes what the read routine returned while closing
			ir.gen++
			ir.restarts++
			w.Log(sim.Event{Kind: "adopt", N: ir.gen})
			warn, fatal := ep.Adopt()
			if fatal != nil {
				c.Violate("adopt-fatal", "AdoptSession failed: "+fatal.Error(), map[string]any{"trace_tail": w.TraceTail(40)})
				ir.viol = true
				break
			}
			for _, e := range warn {
				c.Violate("adopt-warns", "AdoptSession warned on an undamaged store: "+e.Error(), nil)
			}
			ep.D.Manual = true
			ep.D.BigRead = func(b *mqtt.BigMessage) bool { return bigRng.Intn(3) != 0 }
			ep.D.StartReader()
			ir.drivers = append(ir.drivers, ep.D)
		}
	}
	if ir.viol {
		return ir
	}

	// faults stop: run until the broker's side completed
	w.Mu.Lock()
	loseNext, failStore, failNext = false, 0, 0
	w.Mu.Unlock()
	for i := 0; i < 60+6*len(ir.msgs); i++ {
		if !ir.step() {
			return ir
		}
		// terminal: the broker has nothing pending and the read routine sits
		// inside an invocation, so every return was followed by one
		if w.Broker.Pending() == 0 && w.ReaderParked() {
			break
		}
	}
	ir.collect()
	return ir
}

func (ir *inboundRun) finish() {
	for _, cl := range ir.calls {
		select {
		case <-cl.Done:
		case <-time.After(sim.StepTimeout):
		}
	}
	if !ir.ep.D.CloseAndWait() {
		ir.c.Spoiled()
	}
	ir.W.Shutdown()
	mqtt.VerifSetReadBufSize(128 * 1024)
}

// ackEvents lists the client's PUBACK/PUBREC/PUBCOMP writes with their time.
type ackEv struct {
	Typ   byte
	ID    uint16
	Seq   int64 // first byte written
	Conn  int
	Seen  bool // reached the broker
	Order int
}

func (ir *inboundRun) acks() []ackEv {
	w := ir.W
	w.Mu.Lock()
	defer w.Mu.Unlock()
	var out []ackEv
	for _, cn := range w.Conns {
		pk, _, _ := wire.ParseStream(cn.Out, true)
		for _, p := range pk {
			switch p.Type {
			case wire.PUBACK, wire.PUBREC, wire.PUBCOMP:
				out = append(out, ackEv{Typ: p.Type, ID: p.ID, Seq: cn.SeqOfOut(p.Offset + 1), Conn: cn.Idx, Seen: p.Offset+len(p.Raw) <= cn.OutSeen})
			}
		}
	}
	return out
}

// checkC07 applies the acknowledgement-timing oracle.
func checkC07(ir *inboundRun) (pauses int) {
	c := ir.c
	acks := ir.acks()
	byN := map[int]*inMsg{}
	for _, m := range ir.msgs {
		byN[m.N] = m
	}
	// returns of QoS 1/2 messages with the time of the next invocation
	type ret struct {
		m        *inMsg
		r        int64 // return
		nextCall int64 // next rs.call in the same generation, 0 when none
		gen      int
	}
	// invocations and generation starts from the trace
	var callSeqs, adoptSeqs []int64
	ir.W.Mu.Lock()
	for _, e := range ir.W.Trace {
		switch e.Kind {
		case "rs.call":
			callSeqs = append(callSeqs, e.Seq)
		case "adopt":
			adoptSeqs = append(adoptSeqs, e.Seq)
		}
	}
	ir.W.Mu.Unlock()
	nextCallAfter := func(r int64) int64 {
		limit := int64(1) << 62
		for _, a := range adoptSeqs {
			if a > r {
				limit = a
				break
			}
		}
		for _, cs := range callSeqs {
			if cs > r && cs < limit {
				return cs
			}
		}
		return 0
	}
	var rets []ret
	for _, gr := range ir.allReads {
		r := gr.R
		if r.Err != nil && !r.Big {
			continue
		}
		m := byN[inMarker(r.Topic)]
		if m == nil {
			c.Violate("unknown-message-returned", fmt.Sprintf("ReadSlices returned topic %q which the broker never sent", r.Topic), nil)
			continue
		}
		if m.QoS == 0 {
			continue
		}
		rt := ret{m: m, r: r.Seq, gen: gr.Gen, nextCall: nextCallAfter(r.Seq)}
		rets = append(rets, rt)
	}
	// every PUBACK/PUBREC must follow a return of that identifier and the
	// next invocation after it
	for _, a := range acks {
		if a.Typ == wire.PUBCOMP {
			continue
		}
		var best *ret
		for i := range rets {
			rt := &rets[i]
			if rt.m.Out.ID == a.ID && rt.r < a.Seq {
				if best == nil || rt.r > best.r {
					best = rt
				}
			}
		}
		// a later message may reuse the identifier; pick by time only
		if best == nil {
			c.Violate("acknowledged-without-return", fmt.Sprintf("conn %d: %s %#04x written at #%d though no message with that identifier was returned before", a.Conn, wire.TypeName(a.Typ), a.ID, a.Seq), map[string]any{"trace_tail": ir.W.TraceTail(traceN(ir.c))})
			continue
		}
		wantTyp := byte(wire.PUBACK)
		if best.m.QoS == 2 {
			wantTyp = wire.PUBREC
		}
		if a.Typ != wantTyp {
			c.Violate("wrong-acknowledgement-type", fmt.Sprintf("conn %d: %s %#04x written at #%d, the last return of that identifier before it is message %d (level %d) at #%d", a.Conn, wire.TypeName(a.Typ), a.ID, a.Seq, best.m.N, best.m.QoS, best.r), map[string]any{"trace_tail": ir.W.TraceTail(traceN(ir.c))})
		}
		// the application must have invoked ReadSlices again after the return
		// (in that generation or, after a restart, never: then a retransmission
		// was returned again later, which `best` already picks up)
		if best.nextCall == 0 || a.Seq < best.nextCall {
			c.Violate("acknowledged-before-ownership", fmt.Sprintf("conn %d: %s %#04x written at #%d while the application still held message %d (returned at #%d, next ReadSlices at #%d)", a.Conn, wire.TypeName(a.Typ), a.ID, a.Seq, best.m.N, best.r, best.nextCall), map[string]any{"trace_tail": ir.W.TraceTail(traceN(ir.c))})
		}
	}
	// each return gets its own acknowledgement: when the same message comes out
	// again (retransmission after a reconnect), the acknowledgement owed for the
	// earlier return must have been written in between, on whichever connection
	for i, rt := range rets {
		if rt.nextCall == 0 {
			continue
		}
		for _, later := range rets[i+1:] {
			if later.m != rt.m {
				continue
			}
			if later.gen != rt.gen {
				break
			}
			found := false
			for _, a := range acks {
				if a.ID == rt.m.Out.ID && a.Typ != wire.PUBCOMP && a.Seq > rt.nextCall && a.Seq < later.r {
					found = true
				}
			}
			if !found {
				c.Violate("owed-acknowledgement-dropped", fmt.Sprintf("message %d (level %d, identifier %#04x) was returned at #%d, ReadSlices was invoked again at #%d, and the message was returned once more at #%d without any acknowledgement written in between", rt.m.N, rt.m.QoS, rt.m.Out.ID, rt.r, rt.nextCall, later.r), map[string]any{"trace_tail": ir.W.TraceTail(traceN(ir.c))})
			}
			break
		}
	}
	// none is returned without eventually being acknowledged
	for _, rt := range rets {
		if rt.nextCall != 0 {
			pauses++
		}
		// A stop takes the owed acknowledgement of an earlier generation with
		// it; then the one after the message's first return counts.
		// The reference broker may reuse an identifier as soon as it is
		// acknowledged. A second acknowledgement owed for a redelivery of
		// the identifier's previous holder then counts, at the broker, for
		// this message: it stops retransmitting, and what the stopped
		// process owed is gone for good. So for an earlier generation any
		// acknowledgement of the identifier since the broker first sent the
		// message counts.
		after := rt.r
		if rt.gen != ir.gen {
			after = rt.m.SentSeq
			// a broker that forgot the message does not send it again either
			forgotten := false
			for _, at := range ir.sessionLostAt {
				if at > rt.m.SentSeq {
					forgotten = true
				}
			}
			if forgotten {
				continue
			}
		}
		okAck := false
		for _, a := range acks {
			if a.ID == rt.m.Out.ID && a.Seq > after && a.Typ != wire.PUBCOMP {
				okAck = true
			}
		}
		if !okAck {
			c.Violate("returned-never-acknowledged", fmt.Sprintf("message %d (level %d, identifier %#04x) was returned at #%d yet no acknowledgement followed on any connection by idle", rt.m.N, rt.m.QoS, rt.m.Out.ID, rt.r), map[string]any{"trace_tail": ir.W.TraceTail(traceN(ir.c))})
		}
	}
	return pauses
}

// checkC04 applies the exactly-once reception oracle.
func checkC04(ir *inboundRun) (dupsSeen int) {
	c := ir.c
	byN := map[int]*inMsg{}
	for _, m := range ir.msgs {
		byN[m.N] = m
	}
	w := ir.W
	// marker saves per identifier
	w.Mu.Lock()
	type saveAt struct {
		key uint
		seq int64
	}
	var markerSaves, markerDeletes []saveAt
	for _, op := range w.Store.Ops {
		if op.Err || op.Key < 0x10000 {
			continue
		}
		switch op.Op {
		case "save":
			markerSaves = append(markerSaves, saveAt{op.Key, op.RetSeq})
		case "delete":
			markerDeletes = append(markerDeletes, saveAt{op.Key, op.RetSeq})
		}
	}
	pending := len(w.Broker.State.Out)
	var left []string
	for _, m := range w.Broker.State.Out {
		left = append(left, fmt.Sprintf("id=%#04x q%d state=%d sent=%d", m.ID, m.QoS, m.State, m.Sent))
		if m.Sent > 1 {
			dupsSeen++
		}
	}
	for _, e := range w.Trace {
		if e.Kind == "broker.send" && strings.Contains(e.Note, "again") {
			dupsSeen++
		}
	}
	w.Mu.Unlock()

	type seenRet struct {
		gen int
		seq int64
	}
	returns := map[int][]seenRet{}
	for _, gr := range ir.allReads {
		r := gr.R
		if r.Err != nil && !r.Big {
			continue
		}
		m := byN[inMarker(r.Topic)]
		if m == nil || m.QoS != 2 {
			continue
		}
		returns[m.N] = append(returns[m.N], seenRet{gr.Gen, r.Seq})
	}
	for n, rs := range returns {
		m := byN[n]
		for i := 1; i < len(rs); i++ {
			prev, cur := rs[i-1], rs[i]
			if prev.gen == cur.gen {
				c.Violate("exactly-once-message-returned-twice", fmt.Sprintf("message %d (identifier %#04x) was returned at #%d and again at #%d by the same client", n, m.Out.ID, prev.seq, cur.seq), map[string]any{"trace_tail": ir.W.TraceTail(traceN(ir.c))})
				continue
			}
			// across a restart: only legal when the application had not taken
			// ownership before the stop, i.e. when no ReadSlices invocation after
			// the return came back (a transient store error aside)
			for j, gr := range ir.allReads {
				if gr.Gen != prev.gen || gr.R.Seq != prev.seq || j+1 >= len(ir.allReads) {
					continue
				}
				nx := ir.allReads[j+1]
				if nx.Gen == prev.gen && !(nx.R.Err != nil && errors.Is(nx.R.Err, sim.ErrStore)) {
					c.Violate("returned-again-after-ownership-and-restart", fmt.Sprintf("message %d (identifier %#04x) was returned at #%d, the next ReadSlices came back at #%d (ownership taken), yet after a restart it was returned again at #%d", n, m.Out.ID, prev.seq, nx.R.Seq, cur.seq), map[string]any{"trace_tail": ir.W.TraceTail(traceN(ir.c))})
				}
			}
			key := uint(m.Out.ID) | 0x10000
			for _, s := range markerSaves {
				if s.key != key || s.seq < prev.seq || s.seq > cur.seq {
					continue
				}
				ended := false
				for _, d := range markerDeletes {
					if d.key == key && d.seq > s.seq && d.seq < cur.seq {
						ended = true
					}
				}
				if !ended {
					c.Violate("returned-again-after-restart", fmt.Sprintf("message %d (identifier %#04x) was taken into ownership (marker saved at #%d) yet returned again after a restart at #%d", n, m.Out.ID, s.seq, cur.seq), map[string]any{"trace_tail": ir.W.TraceTail(traceN(ir.c))})
				}
			}
		}
	}
	// every message is delivered at least once and the handshake completed
	for _, m := range ir.msgs {
		if m.QoS == 2 && len(returns[m.N]) == 0 {
			c.Violate("exactly-once-message-never-returned", fmt.Sprintf("message %d (identifier %#04x) never came out of ReadSlices", m.N, m.Out.ID), map[string]any{"trace_tail": ir.W.TraceTail(traceN(ir.c))})
		}
	}
	if pending != 0 {
		c.Violate("broker-handshake-incomplete", fmt.Sprintf("at idle on a healthy connection the broker still waits for acknowledgements: %v", left), map[string]any{"trace_tail": ir.W.TraceTail(traceN(ir.c))})
	}
	return dupsSeen
}

func init() {
	run.Register(&run.Prop{
		ID:    "C07",
		Level: "exploration",
		Cases: func(tier string) int {
			if tier == "thorough" {
				return 24000
			}
			return 4500
		},
		ChunkSize:   50,
		Rule:        "each case is a PRNG step script over a harness-controlled read loop (every ReadSlices invocation is granted explicitly): the reference broker sends messages at the three levels (some beyond the read buffer), the application pauses after each return while 0-3 concurrent outbound requests (Publish, Ping, Subscribe, persisted publish) use the connection, the connection is broken (in the at-least-once-only scripts the broker forgets its session at 3 in 10 of the losses), the acknowledgement's own write is accepted and lost, the client is restarted on the same Persistence. Oracle: each PUBACK/PUBREC on any connection follows a return of that identifier AND the next ReadSlices invocation after it; every returned QoS 1/2 message is acknowledged on some connection by idle. Non-trivial: a pause (return followed by a later invocation) with the acknowledgement observed after it; distinct by counts of competing requests, breaks, lost acknowledgements, restarts, big messages.",
		Assumptions: []string{"'took ownership' is the invocation of the next ReadSlices in a running process", "acknowledgement times are the logical time of the first byte accepted by the connection"},
		Run: func(c *run.Ctx) {
			ip := inboundParams{Steps: 10 + c.Rng.Intn(50), Levels: [][]byte{{1}, {2}, {0, 1, 2}, {1, 2}}[c.Rng.Intn(4)], PBig: 0.1, PCompete: 0.08, PBreak: 0.04, PLostAck: 0.03, PRestart: 0.02, PStoreErr: 0.01, PReuse: 0.5, PViolate: 0.3}
			if len(ip.Levels) == 1 && ip.Levels[0] == 1 {
				// (with exactly-once traffic a forgotten session leaves markers behind
				// that meet the identifiers the broker hands out anew: outside C07)
				ip.PLoseSession = 0.3
			}
			if c.Rng.Intn(2) == 0 {
				ip.BufSize = []int{64, 128, 256}[c.Rng.Intn(3)]
			} else {
				ip.PBig = 0
			}
			ir := runInbound(c, ip)
			defer ir.finish()
			if ir.viol {
				return
			}
			pauses := checkC07(ir)
			c.Count("returns_followed_by_invocation", pauses)
			c.Count("messages_sent_by_broker", len(ir.msgs))
			c.Count("competing_requests", ir.competed)
			c.Count("competing_requests_whose_write_failed", ir.competitorFailed)
			c.Count("connection_breaks", ir.breaks)
			c.Count("breaks_inside_a_big_payload", ir.bigCuts)
			c.Count("acknowledgements_lost", ir.lostAcks)
			c.Count("restarts", ir.restarts)
			c.Count("sessions_lost_by_broker", ir.sessionsLost)
			c.Count("connections_ended_by_a_publish_with_identifier_zero", ir.violations)
			if pauses > 0 && ir.competed+ir.breaks+ir.lostAcks+ir.restarts > 0 {
				c.Trigger(fmt.Sprintf("compete=%d|break=%d|lost=%d|restart=%d|buf=%d", min(ir.competed, 3), min(ir.breaks, 3), min(ir.lostAcks, 2), min(ir.restarts, 2), ip.BufSize))
			}
			c.Sample(map[string]any{"steps": ip.Steps, "messages": len(ir.msgs), "pauses": pauses, "competing_requests": ir.competed, "breaks": ir.breaks, "lost_acks": ir.lostAcks, "restarts": ir.restarts})
		},
	})

	run.Register(&run.Prop{
		ID:    "C04",
		Level: "fault_enumeration",
		Cases: func(tier string) int {
			if tier == "thorough" {
				return 24000
			}
			return 4500
		},
		ChunkSize:   50,
		Rule:        "PRNG step scripts as in C07 restricted to QoS 2 (with some QoS 0/1 noise): the reference broker is the sender with its own retransmission state (DUP PUBLISH of everything unacknowledged after each reconnect, PUBREL repeats, identifier reuse after PUBCOMP, messages beyond the read buffer), the client's PUBREC/PUBCOMP get accepted and lost with the connection, connections break at step boundaries, the client is stopped and AdoptSession continues on the same Persistence (between delivery and ownership, and after ownership), transient marker Save/Delete/Load errors (never a stop while such an error is unrecovered: the documented BUG). Oracle: a QoS 2 message is returned at most once per client generation and, across a restart, not again once its marker Save completed until PUBREL ended the cycle; every message is returned at least once; at idle the broker's handshake table is empty (every PUBLISH, duplicate or not, got its PUBREC, every PUBREL its PUBCOMP). Non-trivial: the broker retransmitted at least one PUBLISH or PUBREL; distinct by breaks, lost acknowledgements, restarts, store errors, buffer size.",
		Assumptions: []string{"for stop points ownership is the completion of the marker Save", "the broker forwards retransmissions only after a reconnect, as MQTT 3.1.1 prescribes"},
		Run: func(c *run.Ctx) {
			ip := inboundParams{Steps: 12 + c.Rng.Intn(60), Levels: [][]byte{{2}, {2}, {2, 2, 2, 1, 0}}[c.Rng.Intn(3)], PBig: 0.1, PCompete: 0.02, PBreak: 0.05, PLostAck: 0.05, PRestart: 0.04, PStoreErr: 0.02, PReuse: 0.5}
			if c.Rng.Intn(2) == 0 {
				ip.BufSize = []int{64, 128, 256}[c.Rng.Intn(3)]
			} else {
				ip.PBig = 0
			}
			ir := runInbound(c, ip)
			defer ir.finish()
			if ir.viol {
				return
			}
			dups := checkC04(ir)
			c.Count("retransmissions_by_broker", dups)
			c.Count("messages_sent_by_broker", len(ir.msgs))
			c.Count("connection_breaks", ir.breaks)
			c.Count("acknowledgements_lost", ir.lostAcks)
			c.Count("restarts", ir.restarts)
			c.Count("store_error_bursts", ir.storeErr)
			if dups > 0 {
				c.Trigger(fmt.Sprintf("break=%d|lost=%d|restart=%d|storeerr=%d|buf=%d", min(ir.breaks, 3), min(ir.lostAcks, 3), min(ir.restarts, 3), min(ir.storeErr, 2), ip.BufSize))
			}
			c.Sample(map[string]any{"steps": ip.Steps, "messages": len(ir.msgs), "broker_retransmissions": dups, "breaks": ir.breaks, "lost_acks": ir.lostAcks, "restarts": ir.restarts})
		},
	})
}
