package props

import (
	"errors"
	"fmt"
	"io"
	"strings"
	"sync"
	"sync/atomic"
	"time"

	"github.com/pascaldekloe/mqtt"

	"verif/run"
	"verif/sim"
	"verif/wire"
)

var c12States = []string{"never-connected", "never-connected-signal-taken", "down-signal-taken", "dialing", "connect-write-blocked", "connack-read-blocked", "resend-write-blocked", "online-idle", "online-writer-blocked", "holding-message", "holding-big-message", "writer-failed-unnoticed", "connect-awaits-sequence-lock", "down", "pending-reconnect", "closed-already", "disconnect-write-fails"}
var c12Actions = []string{"Close", "Disconnect-nil", "Disconnect-open-quit", "Disconnect-closed-quit"}

func runShutdown(c *run.Ctx, state string, actions []string, parkHook bool, pendingPubs int, adopted int) {
	w := sim.NewWorld(c.Rng.Int63())
	defer w.Shutdown()
	sim.InstallHooks(w)
	w.DataCap = 64
	connackAt := c.Rng.Intn(4)
	dialerIgnoresCancel := c.Rng.Intn(2) == 0
	parkedOnce := false
	w.Mu.Lock()
	w.DialPlan = func(w *sim.World, n int) sim.DialDecision {
		switch {
		case state == "dialing" && n == 1:
			// (half of the Dialers do not look at their context: the
			// connection comes back after the client was closed)
			return sim.DialDecision{Gate: "state", IgnoreCancel: dialerIgnoresCancel}
		case (state == "down" || state == "down-signal-taken") && n == 1:
			return sim.DialDecision{Err: errors.New("sim: unreachable")}
		}
		return sim.DialDecision{}
	}
	saveRelease := make(chan struct{})
	savePublishDone := make(chan struct{})
	saveHeld := false
	gatedWrite := false
	failNextWrite := false
	failDisconnect := false
	w.WritePlan = func(cn *sim.Conn, p []byte) sim.WriteDecision {
		if failDisconnect && len(p) != 0 && p[0] == wire.DISCONNECT<<4 {
			// the DISCONNECT itself is lost: 0 or 1 of its bytes pass, the
			// connection stays open as far as the transport is concerned
			failDisconnect = false
			return sim.WriteDecision{Accept: w.Rng.Intn(len(p)), Then: "error"}
		}
		if failNextWrite && len(p) != 0 {
			failNextWrite = false
			return sim.WriteDecision{Accept: w.Rng.Intn(len(p)), Then: "error"}
		}
		if len(p) == 0 || gatedWrite {
			return sim.WriteDecision{Accept: -1}
		}
		switch {
		case state == "connect-write-blocked" && p[0]>>4 == wire.CONNECT:
			gatedWrite = true
			return sim.WriteDecision{Accept: w.Rng.Intn(len(p)), GateAfter: "state"}
		case state == "resend-write-blocked" && p[0]>>4 == wire.PUBLISH && p[0]&6 != 0:
			gatedWrite = true
			return sim.WriteDecision{Accept: w.Rng.Intn(len(p)), GateAfter: "state"}
		case state == "online-writer-blocked" && p[0]>>4 == wire.PUBLISH && p[0]&6 == 0:
			gatedWrite = true
			return sim.WriteDecision{Accept: w.Rng.Intn(len(p)), GateAfter: "state"}
		}
		return sim.WriteDecision{Accept: -1}
	}
	w.ReadPlan = func(cn *sim.Conn, avail int) sim.ReadDecision {
		if state == "connack-read-blocked" && cn.Idx == 1 && cn.InPos <= connackAt && cn.InPos < 4 {
			if cn.InPos < connackAt && avail > 0 {
				return sim.ReadDecision{Deliver: min(avail, connackAt-cn.InPos)}
			}
			return sim.ReadDecision{Deliver: -1, Gate: "state", Then: map[bool]string{true: "block", false: ""}[avail == 0]}
		}
		if avail == 0 {
			return sim.ReadDecision{Then: "block"}
		}
		return sim.ReadDecision{Deliver: -1}
	}
	tokenParked := false
	w.PointPlan = func(w *sim.World, point string, n int) sim.PointAction {
		// a request holds the connection signal taken out of the write semaphore
		if point == "lockWrite.token" && !tokenParked && strings.HasSuffix(state, "-signal-taken") {
			tokenParked = true
			return sim.PointAction{Park: "state"}
		}
		return sim.PointAction{}
	}
	if parkHook {
		inner := w.PointPlan
		w.PointPlan = func(w *sim.World, point string, n int) sim.PointAction {
			if a := inner(w, point, n); a.Park != "" {
				return a
			}
			if !parkedOnce && (point == "close.locked" || point == "disconnect.locked") {
				parkedOnce = true
				return sim.PointAction{Sleep: 200 * time.Microsecond}
			}
			if point == "dial.handshaked" || point == "connect.dialed" || point == "toOffline.enter" {
				return sim.PointAction{Yield: true}
			}
			return sim.PointAction{}
		}
	}
	w.Broker.AckPolicy = func(b *sim.Broker, cn *sim.Conn, p *wire.Packet, reply []byte) string { return "hold" }
	w.Mu.Unlock()

	cfg := mqtt.Config{Dialer: w.Dialer(), PauseTimeout: time.Hour, ReconnectWaitMin: time.Microsecond, AtLeastOnceMax: 8, ExactlyOnceMax: 8}
	cl, err := mqtt.InitSession("c12", w.Store, &cfg)
	if err != nil {
		c.Violate("init-failed", err.Error(), nil)
		return
	}
	if adopted > 0 {
		// the client under test continues a session with transfers nobody confirmed
		for i := 0; i < adopted; i++ {
			if i%2 == 0 {
				cl.PublishAtLeastOnce([]byte("inherited"), fmt.Sprint("t/1/", 900+i))
			} else {
				cl.PublishExactlyOnce([]byte("inherited"), fmt.Sprint("t/2/", 900+i))
			}
		}
		cl.Close()
		cfg2 := cfg
		var warn []error
		cl, warn, err = mqtt.AdoptSession(w.Store, &cfg2)
		if err != nil || len(warn) != 0 {
			c.Violate("adopt-failed", fmt.Sprintf("AdoptSession of an undamaged session: %v %v", err, warn), nil)
			return
		}
	}
	d := sim.NewDriver(w, cl, nil, 0)
	if state == "holding-big-message" {
		d.BigRead = func(*mqtt.BigMessage) bool { return false }
	}
	d.Manual = true
	d.NoWatch = true
	detail := func() map[string]any {
		return map[string]any{"state": state, "actions": actions, "pending_publishes": pendingPubs, "inherited_by_adoption": adopted, "trace_tail": w.TraceTail(traceN(c))}
	}

	// Online/Offline are never both released: sample all along
	var bothReleased atomic.Int64
	stopSampler := make(chan struct{})
	var samplerDone sync.WaitGroup
	samplerDone.Add(1)
	go func() {
		defer samplerDone.Done()
		isClosed := func(ch <-chan struct{}) bool {
			select {
			case <-ch:
				return true
			default:
				return false
			}
		}
		for {
			select {
			case <-stopSampler:
				return
			default:
			}
			// A released channel stays released for as long as it is the current
			// one (blocking installs a new object). Online unchanged and released
			// around an interval in which Offline is unchanged and released means
			// both were released at the same time.
			on1 := cl.Online()
			con := isClosed(on1)
			off1 := cl.Offline()
			coff := isClosed(off1)
			off2 := cl.Offline()
			on2 := cl.Online()
			if on1 == on2 && con && off1 == off2 && coff {
				bothReleased.Add(1)
			}
			time.Sleep(20 * time.Microsecond)
		}
	}()
	defer func() {
		close(stopSampler)
		samplerDone.Wait()
	}()

	for i := 0; i < pendingPubs; i++ {
		d.Publish(1+i%2, false, 3)
	}
	var inflight []*sim.Call
	stuck := func(what string) {
		wedged, report := w.Diagnose(1500 * time.Millisecond)
		if wedged {
			dt := detail()
			dt["report"] = report
			c.Violate("shutdown-stuck", what, dt)
		} else {
			c.Inconclusive("slow: " + what)
		}
		c.Spoiled()
	}
	if state != "never-connected" && state != "never-connected-signal-taken" {
		d.StartReader()
	}
	switch state {
	case "never-connected":
	case "never-connected-signal-taken", "down-signal-taken":
		if state == "down-signal-taken" {
			d.GrantWhenPaused(sim.StepTimeout)
			if !w.WaitUntil(sim.StepTimeout, func() bool { return d.ReadCount() >= 1 }) {
				stuck("failed connect not reported")
				return
			}
		}
		switch c.Rng.Intn(3) {
		case 0:
			inflight = append(inflight, d.Go("Ping", func() error { return cl.Ping(nil) }))
		case 1:
			inflight = append(inflight, d.Go("Publish", func() error { return cl.Publish(nil, []byte("x"), "t") }))
		default:
			inflight = append(inflight, d.Go("Subscribe", func() error { return cl.Subscribe(nil, "f") }))
		}
		if !w.WaitGateWaiting("state", 1, sim.StepTimeout) {
			stuck("the request did not reach the point where it holds the connection signal")
			return
		}
	case "dialing", "connect-write-blocked", "connack-read-blocked":
		d.GrantWhenPaused(sim.StepTimeout)
		if !w.WaitGateWaiting("state", 1, sim.StepTimeout) {
			stuck("state " + state + " not reached")
			return
		}
	case "resend-write-blocked":
		if pendingPubs == 0 {
			d.Publish(1, false, 3)
		}
		d.GrantWhenPaused(sim.StepTimeout)
		if !w.WaitGateWaiting("state", 1, sim.StepTimeout) {
			stuck("state " + state + " not reached")
			return
		}
	case "online-idle", "online-writer-blocked", "holding-message", "holding-big-message", "writer-failed-unnoticed", "pending-reconnect", "disconnect-write-fails":
		d.GrantWhenPaused(sim.StepTimeout)
		if !w.WaitUntil(sim.StepTimeout, func() bool { return w.PointCountLocked("connect.resent") > 0 && w.ReaderQuietLocked() }) {
			stuck("connect")
			return
		}
		switch state {
		case "disconnect-write-fails":
			w.Mu.Lock()
			failDisconnect = true
			w.Mu.Unlock()
		case "online-writer-blocked":
			for i := 0; i < 1+c.Rng.Intn(3); i++ {
				tag := fmt.Sprint("w/", i)
				inflight = append(inflight, d.Go("Publish", func() error { return cl.Publish(nil, []byte("x"), tag) }))
			}
			inflight = append(inflight, d.Go("Subscribe", func() error { return cl.Subscribe(nil, "w/sub") }))
			if !w.WaitGateWaiting("state", 1, sim.StepTimeout) {
				stuck("writer gate not reached")
				return
			}
		case "holding-big-message":
			// beyond the read buffer, handed out and left unread
			w.Broker.Publish("in/big", sim.MarkerPayload(1, mqtt.VerifReadBufSize()+100+c.Rng.Intn(5000)), byte(c.Rng.Intn(3)), false)
			if !w.WaitUntil(sim.StepTimeout, func() bool { return d.ReadCount() >= 1 }) {
				stuck("big message not returned")
				return
			}
		case "holding-message":
			w.Broker.Publish("in/1", []byte("m"), 1, false)
			if !w.WaitUntil(sim.StepTimeout, func() bool { return d.ReadCount() >= 1 }) {
				stuck("message not returned")
				return
			}
		case "writer-failed-unnoticed":
			// the application is busy with a message; meanwhile a request's write
			// fails, which leaves the connection pending with the signals online
			w.Broker.Publish("in/1", []byte("m"), 1, false)
			if !w.WaitUntil(sim.StepTimeout, func() bool { return d.ReadCount() >= 1 }) {
				stuck("message not returned")
				return
			}
			w.Mu.Lock()
			failNextWrite = true
			w.Mu.Unlock()
			failed := d.Go("Publish", func() error { return cl.Publish(nil, []byte("x"), "t/fails") })
			if !w.WaitUntil(sim.StepTimeout, func() bool { return failed.Returned() }) {
				stuck("the failing request did not return")
				return
			}
		case "pending-reconnect":
			w.CurConn().EndInbound(-1, io.EOF)
			if !w.WaitUntil(sim.StepTimeout, func() bool { return d.ReadCount() >= 1 }) {
				stuck("loss not reported")
				return
			}
		}
		if state == "online-idle" && c.Rng.Intn(2) == 0 {
			inflight = append(inflight, d.Go("Subscribe", func() error { return cl.Subscribe(nil, "idle/sub") }))
			inflight = append(inflight, d.Go("Ping", func() error { return cl.Ping(nil) }))
			w.WaitUntil(200*time.Millisecond, func() bool { return len(w.Broker.Held) >= 2 })
		}
	case "connect-awaits-sequence-lock":
		// a publish sits inside Persistence.Save with its sequence lock; the
		// connect attempt got its CONNACK and waits for that lock
		saveEntered := make(chan struct{}, 1)
		armedSave := true
		w.Store.PreCopy = func() {
			w.Mu.Lock()
			first := armedSave
			armedSave = false
			w.Mu.Unlock()
			if first {
				saveEntered <- struct{}{}
				<-saveRelease
			}
		}
		saveLevel := 1 + c.Rng.Intn(2)
		go func() {
			d.Publish(saveLevel, false, 3)
			close(savePublishDone)
		}()
		select {
		case <-saveEntered:
		case <-time.After(sim.StepTimeout):
			stuck("the publish did not reach Persistence.Save")
			return
		}
		d.GrantWhenPaused(sim.StepTimeout)
		if !w.WaitUntil(sim.StepTimeout, func() bool { return w.PointCountLocked("dial.handshaked") >= 1 }) {
			stuck("handshake not completed")
			close(saveRelease)
			return
		}
		saveHeld = true
	case "down":
		d.GrantWhenPaused(sim.StepTimeout)
		if !w.WaitUntil(sim.StepTimeout, func() bool { return d.ReadCount() >= 1 }) {
			stuck("failed connect not reported")
			return
		}
	case "closed-already":
		d.GrantWhenPaused(sim.StepTimeout)
		w.WaitUntil(sim.StepTimeout, func() bool { return w.PointCountLocked("connect.resent") > 0 && w.ReaderQuietLocked() })
		cl.Close()
	}
	w.Mu.Lock()
	dialsAtAction := w.Dials
	lastConn := w.Cur()
	w.Mu.Unlock()

	// the actions, concurrently
	type actRes struct {
		name string
		err  error
		done chan struct{}
	}
	var acts []*actRes
	for _, a := range actions {
		ar := &actRes{name: a, done: make(chan struct{})}
		acts = append(acts, ar)
		go func() {
			defer close(ar.done)
			defer func() {
				if p := recover(); p != nil {
					ar.err = fmt.Errorf("PANIC: %v", p)
				}
			}()
			switch ar.name {
			case "Close":
				ar.err = cl.Close()
			case "Disconnect-nil":
				ar.err = cl.Disconnect(nil)
			case "Disconnect-open-quit":
				ar.err = cl.Disconnect(make(chan struct{}))
			default:
				ar.err = cl.Disconnect(closedQuit)
			}
		}()
	}
	w.CancelWake()
	allDone := func() bool {
		for _, ar := range acts {
			select {
			case <-ar.done:
			default:
				return false
			}
		}
		return true
	}
	// Close returns while others are still blocked inside connection operations.
	// Disconnect needs the write lock: with a writer held inside Write it may
	// wait for that write to end, so the held write gets released then.
	promptly := true
	if saveHeld {
		// the actions may wait for connection control, which the connect attempt
		// holds while it waits for the publisher; let them get there, then the
		// Save returns
		time.Sleep(time.Duration(1+c.Rng.Intn(5)) * time.Millisecond)
		close(saveRelease)
		saveHeld = false
		// the publish call comes back before anything of it is looked at
		select {
		case <-savePublishDone:
		case <-time.After(sim.StepTimeout):
			stuck("the publish that sat in Save did not return")
			return
		}
	} else if state == "dialing" && dialerIgnoresCancel {
		// nothing can interrupt such a Dialer: the actions wait for it; let them
		// get there, then the dial comes back with a connection nobody wants
		time.Sleep(time.Duration(1+c.Rng.Intn(5)) * time.Millisecond)
	} else if strings.HasSuffix(state, "-signal-taken") {
		// the actions may wait for the signal to come back (not for long, says the
		// code: here the hook holds it); give them time to get there, then let go
		time.Sleep(time.Duration(1+c.Rng.Intn(10)) * time.Millisecond)
	} else {
		promptly = w.WaitUntil(2*time.Second, allDone)
	}
	if !promptly {
		// A Disconnect without a fired quit waits for the write lock; whoever
		// queues behind it for connection control (Close included) waits along.
		onlyDisconnectWaits := false
		for _, ar := range acts {
			if ar.name == "Disconnect-nil" || ar.name == "Disconnect-open-quit" {
				onlyDisconnectWaits = true
			}
		}
		if !onlyDisconnectWaits || (state != "online-writer-blocked" && state != "resend-write-blocked" && state != "connect-write-blocked") {
			wedged, report := w.Diagnose(1500 * time.Millisecond)
			if !w.WaitUntil(time.Millisecond, allDone) {
				if wedged {
					var waiting []string
					for _, ar := range acts {
						select {
						case <-ar.done:
						default:
							waiting = append(waiting, ar.name)
						}
					}
					dt := detail()
					dt["report"] = report
					c.Violate("close-or-disconnect-blocks", fmt.Sprintf("in state %s: %v did not return while the connection operations stay blocked", state, waiting), dt)
				} else {
					c.Inconclusive("actions slow")
				}
				c.Spoiled()
				w.Open("state")
				return
			}
		}
	}
	w.Open("state")
	if !w.WaitUntil(sim.StepTimeout, allDone) {
		stuck("Disconnect did not return after the held write was released")
		return
	}
	for _, ar := range acts {
		if ar.err != nil && strings.HasPrefix(ar.err.Error(), "PANIC") {
			c.Violate("panic-in-shutdown", fmt.Sprintf("%s: %v", ar.name, ar.err), detail())
		}
	}

	// the read routine reports ErrClosed, without dialling
	if state == "never-connected" || state == "never-connected-signal-taken" {
		d.StartReader()
	}
	gotClosed := func() bool {
		for _, r := range d.ReadsSnapshot() {
			if r.Err != nil && errors.Is(r.Err, mqtt.ErrClosed) {
				return true
			}
		}
		return false
	}
	for i := 0; i < 6 && !gotClosed(); i++ {
		d.GrantWhenPaused(time.Second)
		w.WaitUntil(500*time.Millisecond, func() bool { return gotClosed() })
	}
	if !gotClosed() {
		wedged, report := w.Diagnose(1500 * time.Millisecond)
		if !gotClosed() {
			if wedged {
				dt := detail()
				dt["report"] = report
				c.Violate("readslices-blocks-after-close", "ReadSlices did not report ErrClosed", dt)
			} else {
				c.Inconclusive("ReadSlices slow after close")
			}
			c.Spoiled()
			return
		}
	}
	select {
	case <-d.ReaderDone:
	case <-time.After(sim.StepTimeout):
		stuck("read loop did not end")
		return
	}
	w.Mu.Lock()
	dialsAfter := w.Dials
	w.Mu.Unlock()
	if dialsAfter > dialsAtAction+1 || dialsAfter > dialsAtAction && state != "pending-reconnect" && state != "down" && state != "never-connected" && state != "holding-message" && state != "holding-big-message" && state != "writer-failed-unnoticed" && state != "connect-awaits-sequence-lock" {
		// one more dial may have been under way when the action hit
		c.Violate("dial-after-close", fmt.Sprintf("the Dialer was invoked %d more times after the client was closed", dialsAfter-dialsAtAction), detail())
	}
	// in-flight requests return
	for _, call := range inflight {
		if !w.WaitUntil(sim.StepTimeout, func() bool { return call.Returned() }) {
			stuck(call.Method + " in flight never returned after close")
			return
		}
	}
	// every method returns ErrClosed from now on
	for name, f := range map[string]func() error{
		"Publish":            func() error { return cl.Publish(nil, []byte("x"), "after") },
		"PublishRetained":    func() error { return cl.PublishRetained(nil, []byte("x"), "after") },
		"Subscribe":          func() error { return cl.Subscribe(nil, "after") },
		"Unsubscribe":        func() error { return cl.Unsubscribe(nil, "after") },
		"Ping":               func() error { return cl.Ping(nil) },
		"Disconnect":         func() error { return cl.Disconnect(nil) },
		"PublishAtLeastOnce": func() error { _, err := cl.PublishAtLeastOnce([]byte("x"), "after"); return err },
		"PublishExactlyOnce": func() error { _, err := cl.PublishExactlyOnce([]byte("x"), "after"); return err },
		"ReadSlices":         func() error { _, _, err := cl.ReadSlices(); return err },
	} {
		call := d.Go(name, f)
		if !w.WaitUntil(sim.StepTimeout, func() bool { return call.Returned() }) {
			stuck(name + " blocks on a closed client")
			return
		}
		if !errors.Is(call.Err, mqtt.ErrClosed) {
			c.Violate("method-after-close-not-errclosed", fmt.Sprintf("%s on the closed client returned %v", name, call.Err), detail())
		}
	}
	if err := cl.Close(); err != nil {
		c.Violate("close-after-close", fmt.Sprintf("Close on the closed client returned %v", err), detail())
	}
	// signals
	select {
	case <-cl.Offline():
	default:
		c.Violate("offline-not-released", "Offline() blocks on the closed client", detail())
	}
	select {
	case <-cl.Online():
		c.Violate("online-released-after-close", "Online() is released on the closed client", detail())
	default:
	}
	if n := bothReleased.Load(); n != 0 {
		c.Violate("online-and-offline-both-released", fmt.Sprintf("Online and Offline were seen released at the same time %d times", n), detail())
	}
	// pending exchanges: an ErrClosed each, still open
	for _, p := range d.PubsSnapshot() {
		if p.X == nil {
			continue
		}
		gotErrClosed, closed := false, false
		for drained := false; !drained; {
			select {
			case e, ok := <-p.X:
				if !ok {
					closed, drained = true, true
					break
				}
				if errors.Is(e, mqtt.ErrClosed) {
					gotErrClosed = true
				}
			default:
				drained = true
			}
		}
		if closed {
			c.Violate("exchange-closed-by-shutdown", fmt.Sprintf("the exchange of pending message %d got closed by the shutdown", p.N), detail())
		} else if !gotErrClosed {
			c.Violate("exchange-without-errclosed", fmt.Sprintf("the exchange of pending message %d received no ErrClosed", p.N), detail())
		}
	}
	// connections and goroutines left behind
	dtLeft := detail() // (takes the lock itself)
	w.Mu.Lock()
	for _, cn := range w.Conns {
		if !cn.Closed() {
			c.Violate("connection-left-open", fmt.Sprintf("conn %d was never closed", cn.Idx), dtLeft)
		}
	}
	_ = lastConn
	// a Disconnect that returned nil made DISCONNECT the last packet
	for _, ar := range acts {
		if strings.HasPrefix(ar.name, "Disconnect") && ar.err == nil {
			ok := false
			for _, cn := range w.Conns {
				pk, rest, _ := wire.ParseStream(cn.Out, true)
				if len(rest) == 0 && len(pk) > 0 && pk[len(pk)-1].Type == wire.DISCONNECT {
					ok = true
				}
				for i, p := range pk {
					if p.Type == wire.DISCONNECT && (i != len(pk)-1 || len(rest) != 0) {
						c.Violate("bytes-after-disconnect", fmt.Sprintf("conn %d carries %d packets and %d bytes after DISCONNECT", cn.Idx, len(pk)-1-i, len(rest)), nil)
					}
				}
			}
			if !ok {
				c.Violate("disconnect-success-without-packet", "Disconnect returned nil yet no connection ends with DISCONNECT", nil)
			}
		}
	}
	w.Mu.Unlock()
	leakDeadline := time.Now().Add(2 * time.Second)
	var left []string
	for {
		left = sim.MqttStacks()
		if len(left) == 0 || time.Now().After(leakDeadline) {
			break
		}
		time.Sleep(5 * time.Millisecond)
	}
	if len(left) != 0 {
		// left for good, or only slow to end? the same stacks with nothing going on
		// while the process gets processor time is what a leak looks like
		wedged, _ := w.Diagnose(1500 * time.Millisecond)
		if again := sim.MqttStacks(); len(again) == 0 {
			left = nil
		} else if !wedged {
			c.Inconclusive("library goroutines slow to end after shutdown")
			c.Spoiled()
			left = nil
		}
	}
	if len(left) != 0 {
		c.Violate("goroutine-left-behind", fmt.Sprintf("%d goroutines with library frames remain after shutdown", len(left)), map[string]any{"stacks": left, "d": detail()})
		c.Spoiled()
	}
	c.Count("shutdowns", 1)
	c.Count("actions", len(actions))
	c.Count("requests_in_flight", len(inflight))
	if state != "online-idle" || len(inflight) > 0 {
		c.Trigger(fmt.Sprintf("%s|%s|hook=%v|pubs=%d", state, strings.Join(actions, "+"), parkHook, min(pendingPubs, 2)))
	}
	c.Sample(map[string]any{"state": state, "actions": actions, "pending_publishes": pendingPubs, "in_flight": len(inflight)})
}

func init() {
	run.Register(&run.Prop{
		ID:    "C12",
		Level: "exploration",
		Cases: func(tier string) int {
			if tier == "thorough" {
				return 12000
			}
			return 1100
		},
		ChunkSize:   40,
		Rule:        "state x action matrix, states reached deterministically by gating: never connected; Dialer blocked; CONNECT write blocked after 0..n bytes; CONNACK read blocked after 0-3 bytes; resend write blocked mid-packet; online idle (with Subscribe and Ping awaiting responses); online idle with the write of the DISCONNECT packet failing after 0-1 bytes on a transport that stays open; online with 1-3 Publish calls and a Subscribe, the first blocked inside Write; application holding a returned message; the same with a request's write having failed meanwhile (connection pending, signals still online); a connect attempt that got its CONNACK and waits for the sequence lock of a publish inside Persistence.Save; down after a failed connect; connection lost and not yet redialled; closed already. Actions: 1-4 of Close, Disconnect(nil), Disconnect(open quit), Disconnect(closed quit) concurrently, optionally delayed at the close.locked/disconnect.locked hook points and with yields at connect hook points; 0-4 persisted publishes pending whose exchange channels are deliberately left undrained. Oracle: every action returns while the connection operations stay blocked (a Disconnect may wait for a held write, which is then released); no panic; ReadSlices reports ErrClosed without another dial; in-flight requests return; afterwards all nine public methods return ErrClosed, Close returns nil, Offline is released, Online blocked, and the pair was never seen released together (sampler running all along); every pending exchange holds an ErrClosed and is still open; every connection got closed; a Disconnect that returned nil made DISCONNECT the last packet of its connection; no goroutine with a library frame remains. Non-trivial: action issued in a non-idle state; distinct by (state, action multiset, hook delay, pending publishes).",
		Assumptions: []string{"promptness is decided structurally: the actions must return while the gates that block the connection operations stay closed", "goroutines get 2 s to wind down before they count as left behind"},
		Run: func(c *run.Ctx) {
			state := c12States[c.Case%len(c12States)]
			n := 1 + c.Rng.Intn(4)
			if c.Rng.Intn(2) == 0 {
				n = 1
			}
			var actions []string
			for i := 0; i < n; i++ {
				actions = append(actions, c12Actions[c.Rng.Intn(len(c12Actions))])
			}
			adopted := 0
			if c.Rng.Intn(4) == 0 {
				adopted = 1 + c.Rng.Intn(4)
			}
			runShutdown(c, state, actions, c.Rng.Intn(2) == 0, c.Rng.Intn(5), adopted)
		},
	})
}
