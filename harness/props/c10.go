package props

import (
	"context"
	"errors"
	"fmt"
	"io"
	"net"
	"strings"
	"time"

	"github.com/pascaldekloe/mqtt"

	"verif/run"
	"verif/sim"
	"verif/wire"
)

// An incident is one placement of a failure relative to the read routine.
var incidentKinds = []string{
	"writer-fails-while-reader-owes-ack",    // reader parked before its flush
	"writer-fails-while-reader-in-read",     // reader blocked in Read
	"writer-fails-while-reader-owes-pubrel", // reader parked between PUBREL save and write
	"writer-fails-after-reader-flushed",     // plain order
	"reader-fails-while-writer-blocked",     // read error with a writer stuck inside Write
	"read-eof", "read-reset", "read-expiry-mid-packet", "protocol-violation",
	"ack-write-fails", "dial-fails-n-times", "handshake-fails", "resend-fails", "refused",
	"expiry-while-skipping-big-duplicate",             // the broker stalls inside the payload of a retransmission that gets skipped
	"expiry-while-skipping-unread-big",                // the same inside a big message the application did not read
	"violation-inside-big-publish",                    // a PUBLISH beyond the read buffer that is itself a protocol violation
	"publish-during-resend",                           // persisted publishes of both levels while the resend of a reconnect is under way
	"client-identifier-load-fails",                    // the Persistence fails the Load of the client identifier at 1-2 connect attempts
	"writer-fails-while-reader-owes-duplicate-pubrec", // the read routine meets a retransmitted exactly-once PUBLISH with the connection set pending by a failed writer
}

const c10Min, c10Max = 2 * time.Millisecond, 16 * time.Millisecond

func runIncidents(c *run.Ctx, kinds []string) {
	ep := newEpisode(c)
	w := ep.W
	defer w.Shutdown()
	ep.F.Off = true
	ep.Cfg.ReconnectWaitMin, ep.Cfg.ReconnectWaitMax = c10Min, c10Max
	ep.Cfg.AtLeastOnceMax, ep.Cfg.ExactlyOnceMax = 32, 32
	// scripted decisions, set per incident
	var failWriter, gateWriter, failAck, skipBig, gateResend, gateMidRead bool
	var failDials, failHandshake, failResend, refuse, failLoadID int
	parkAt := ""
	w.Mu.Lock()
	w.PointPlan = func(w *sim.World, point string, n int) sim.PointAction {
		if point == parkAt {
			parkAt = ""
			return sim.PointAction{Park: "reader"}
		}
		return sim.PointAction{}
	}
	w.Mu.Unlock()
	if err := ep.Init(); err != nil {
		c.Violate("init-failed", err.Error(), nil)
		return
	}
	w.Mu.Lock()
	w.WritePlan = func(cn *sim.Conn, p []byte) sim.WriteDecision {
		isReq := len(p) > 0 && (p[0]>>4 == wire.PUBLISH && p[0]&6 == 0 || p[0]>>4 == wire.SUBSCRIBE || p[0]>>4 == wire.PINGREQ)
		isAck := len(p) > 0 && (p[0]>>4 == wire.PUBACK || p[0]>>4 == wire.PUBREC || p[0]>>4 == wire.PUBCOMP || p[0]>>4 == wire.PUBREL)
		isResend := len(p) > 0 && p[0]>>4 == wire.PUBLISH && p[0]&6 != 0
		switch {
		case failWriter && isReq:
			failWriter = false
			return sim.WriteDecision{Accept: w.Rng.Intn(len(p)), Then: "error"}
		case gateWriter && isReq:
			gateWriter = false
			return sim.WriteDecision{Accept: w.Rng.Intn(len(p)), GateAfter: "writer"}
		case failAck && isAck:
			failAck = false
			return sim.WriteDecision{Accept: w.Rng.Intn(len(p)), Then: "error"}
		case gateResend && isResend:
			gateResend = false
			return sim.WriteDecision{Accept: w.Rng.Intn(len(p)), GateAfter: "resend"}
		case failResend > 0 && isResend:
			failResend--
			return sim.WriteDecision{Accept: w.Rng.Intn(len(p)), Then: "error"}
		}
		return sim.WriteDecision{Accept: -1}
	}
	w.Store.Fail = func(op string, key uint, n int) bool {
		if op == "load" && key == 0 && failLoadID > 0 {
			failLoadID--
			return true
		}
		return false
	}
	w.DialPlan = func(w *sim.World, n int) sim.DialDecision {
		if failDials > 0 {
			failDials--
			// what Dialers report: none of these means that the Client got closed
			switch w.Rng.Intn(7) {
			case 6:
				// a Dialer with a context of its own that it cancels itself
				return sim.DialDecision{Err: context.Canceled}
			case 0:
				return sim.DialDecision{Err: fmt.Errorf("sim: dial tcp: lookup broker: %w", context.Canceled)}
			case 1:
				return sim.DialDecision{Err: fmt.Errorf("sim: dial tcp: %w", context.DeadlineExceeded)}
			case 2:
				return sim.DialDecision{Err: &net.OpError{Op: "dial", Net: "tcp", Err: net.ErrClosed}}
			case 3:
				return sim.DialDecision{Err: io.ErrUnexpectedEOF}
			}
			return sim.DialDecision{Err: errors.New("sim: host unreachable")}
		}
		return sim.DialDecision{}
	}
	w.Broker.Connack = func(b *sim.Broker, cn *sim.Conn, p *wire.Packet) []byte {
		switch {
		case refuse > 0:
			refuse--
			return wire.Connack(false, byte(1+w.Rng.Intn(5)))
		case failHandshake > 0:
			failHandshake--
			cn.EndInboundLocked(-1, io.EOF)
			return nil
		}
		return wire.Connack(b.State.Session && !p.Connect.CleanSession, 0)
	}
	// the answer to a subscribe on "c10/await/…" is withheld: the request sits
	// on its connection, awaiting, when the incident strikes
	awaitPolicy := func(b *sim.Broker, cn *sim.Conn, p *wire.Packet, reply []byte) string {
		if p.Type == wire.SUBSCRIBE && len(p.Filters) > 0 && strings.HasPrefix(p.Filters[0], "c10/await/") {
			return "hold"
		}
		return ""
	}
	w.Broker.AckPolicy = awaitPolicy
	w.ReadPlan = func(cn *sim.Conn, avail int) sim.ReadDecision {
		if avail == 0 {
			d := sim.ReadDecision{Then: "block"}
			if cn.ReadDeadlineArmed() && cn.MidPacket() {
				d.Then = "timeout"
			}
			if gateMidRead && cn.MidPacket() {
				// the wait inside the packet lasts long enough for another
				// goroutine's write to come and go (decided anew afterwards)
				d.Gate = "midread"
			}
			return d
		}
		if avail > 1 && w.Rng.Intn(3) == 0 {
			return sim.ReadDecision{Deliver: 1 + w.Rng.Intn(avail-1)}
		}
		return sim.ReadDecision{Deliver: -1}
	}
	w.Mu.Unlock()
	d := ep.D
	d.WaitBackoff = true
	d.BigRead = func(b *mqtt.BigMessage) bool {
		w.Mu.Lock()
		defer w.Mu.Unlock()
		return !skipBig
	}
	d.StartReader()
	detail := func() map[string]any {
		return map[string]any{"incidents": kinds, "trace_tail": w.TraceTail(traceN(c))}
	}
	// what the online monitors saw is reported however the episode ends
	defer func() {
		w.Mu.Lock()
		online := append([]string(nil), w.Online...)
		w.Mu.Unlock()
		for _, o := range online {
			sig := "deadline-discipline"
			if strings.HasPrefix(o, "bounded wait") {
				sig = "wait-without-progress-goes-on"
			}
			c.Violate(sig, o, detail())
		}
		for _, o := range d.LeftOpenSnapshot() {
			c.Violate("failed-connection-left-in-use", o, detail())
		}
	}()
	wedge := func(what string) bool {
		wedged, report := w.Diagnose(1500 * time.Millisecond)
		if wedged {
			dt := detail()
			dt["report"] = report
			sig := "read-routine-wedged"
			if !strings.Contains(report, "ReadSlices") {
				sig = "request-wedged"
			}
			c.Violate(sig, what, dt)
		} else {
			c.Inconclusive("slow: " + what + ": " + firstLine(report))
		}
		c.Spoiled()
		return false
	}
	online := func() bool {
		select {
		case <-d.C.Online():
			return true
		default:
			return false
		}
	}
	awaitOnline := func(what string) bool {
		if !w.WaitUntil(sim.StepTimeout, func() bool { return online() && w.ReaderQuietLocked() }) {
			return wedge("client did not come back online after " + what)
		}
		return true
	}
	ping := func(what string) *sim.Call {
		cl := d.Go("Ping", func() error { return d.C.Ping(nil) })
		if !w.WaitUntil(sim.StepTimeout, func() bool { return cl.Returned() }) {
			wedged, report := w.Diagnose(1500 * time.Millisecond)
			if !cl.Returned() {
				if wedged {
					dt := detail()
					dt["report"] = report
					c.Violate("probe-never-answered", fmt.Sprintf("after %s the client signals Online yet a Ping gets no answer through", what), dt)
				} else {
					c.Inconclusive("probe slow after " + what)
				}
				c.Spoiled()
				return nil
			}
		}
		return cl
	}
	probe := func(what string) bool {
		cl := ping(what)
		if cl == nil {
			return false
		}
		if cl.Err != nil {
			// a failure may still be in the pipeline; once more after online
			if !awaitOnline(what) {
				return false
			}
			if cl = ping(what); cl == nil {
				return false
			}
		}
		if cl.Err != nil {
			c.Violate("probe-fails-after-recovery", fmt.Sprintf("after %s the client signals Online yet Ping returns %q", what, cl.Err), detail())
			return false
		}
		return true
	}
	if !awaitOnline("start") {
		return
	}
	n, awaited := 0, 0
	prevKind := "start"
	var pending []*sim.Call
	for _, kind := range kinds {
		n++
		dialsBefore := w.Now()
		_ = dialsBefore
		w.Mu.Lock()
		conn := w.Cur()
		dials0 := w.Dials
		w.Mu.Unlock()
		tag := fmt.Sprintf("%d", n)
		request := func() *sim.Call {
			switch c.Rng.Intn(3) {
			case 0:
				return d.Go("Publish", func() error { return d.C.Publish(nil, []byte("x"), "c10/"+tag) })
			case 1:
				return d.Go("Subscribe", func() error { return d.C.Subscribe(nil, "c10/"+tag) })
			default:
				return d.Go("Ping", func() error { return d.C.Ping(nil) })
			}
		}
		set := func(f func()) { w.Mu.Lock(); f(); w.Mu.Unlock() }
		if c.Rng.Intn(2) == 0 {
			// a request that is out and awaits its answer on this connection
			aw := d.Go("Subscribe", func() error { return d.C.Subscribe(nil, "c10/await/"+tag) })
			w.Mu.Lock()
			held0 := len(w.Broker.Held)
			w.Mu.Unlock()
			if w.WaitUntil(sim.StepTimeout, func() bool { return len(w.Broker.Held) > held0 || aw.Returned() }) && !aw.Returned() {
				pending = append(pending, aw)
				awaited++
			}
		}
		switch kind {
		case "writer-fails-while-reader-owes-ack", "writer-fails-while-reader-owes-pubrel":
			if kind == "writer-fails-while-reader-owes-ack" {
				set(func() { parkAt = "read.flush" })
				w.Broker.Publish("in/"+tag, []byte("m"), byte(1+c.Rng.Intn(2)), false)
				// the message comes out, the next invocation parks before the flush
			} else {
				set(func() { parkAt = "pubrec.saved" })
				d.Publish(2, false, 3)
			}
			if !w.WaitGateWaiting("reader", 1, sim.StepTimeout) {
				wedge("read routine never reached the parking point")
				return
			}
			set(func() { failWriter = true })
			pending = append(pending, request())
			// the writer failed and left the connection pending
			w.WaitUntil(sim.StepTimeout, func() bool { return conn.Closed() })
			w.Open("reader")
			w.WaitUntil(sim.StepTimeout, func() bool { return w.Gate("reader").Waiting == 0 })
			w.ResetGate("reader")
		case "writer-fails-while-reader-owes-duplicate-pubrec":
			// an exactly-once message gets received in full (marker stored); the read
			// routine parks before its next flush with a retransmission of that
			// message already on the way; a writer fails meanwhile
			id := uint16(0x0300 + n)
			msg := wire.Publish("in/dup/"+tag, []byte("m"), 2, id, false, false)
			reads0 := d.ReadCount()
			conn.Send(msg, "exactly-once PUBLISH")
			if !w.WaitUntil(sim.StepTimeout, func() bool { return d.ReadCount() > reads0 && w.ReaderQuietLocked() }) {
				wedge("exactly-once message was not received")
				return
			}
			set(func() { parkAt = "read.flush" })
			// a first packet brings the read routine round to the parking point, the
			// retransmission waits right behind it
			conn.Send(append(wire.Publish("in/noise/"+tag, []byte("n"), 0, 0, false, false), wire.Publish("in/dup/"+tag, []byte("m"), 2, id, true, false)...), "PUBLISH, then the retransmission")
			if !w.WaitGateWaiting("reader", 1, sim.StepTimeout) {
				wedge("read routine never reached the parking point")
				return
			}
			set(func() { failWriter = true })
			pending = append(pending, request())
			w.WaitUntil(sim.StepTimeout, func() bool { return conn.Closed() })
			w.Open("reader")
			w.WaitUntil(sim.StepTimeout, func() bool { return w.Gate("reader").Waiting == 0 })
			w.ResetGate("reader")
		case "writer-fails-while-reader-in-read", "writer-fails-after-reader-flushed":
			if kind == "writer-fails-after-reader-flushed" {
				w.Broker.Publish("in/"+tag, []byte("m"), 1, false)
				w.WaitReaderQuiet(sim.StepTimeout)
			}
			set(func() { failWriter = true })
			pending = append(pending, request())
		case "reader-fails-while-writer-blocked":
			set(func() { gateWriter = true })
			pending = append(pending, request())
			if !w.WaitGateWaiting("writer", 1, sim.StepTimeout) {
				wedge("writer never reached its gate")
				return
			}
			// now the broker misbehaves while the writer holds the connection
			conn.Send([]byte{0x20, 2, 0, 0}, "second CONNACK")
			if !w.WaitUntil(sim.StepTimeout, func() bool { return conn.Closed() }) {
				wedge("read routine did not interrupt the blocked writer")
				w.Open("writer")
				return
			}
			w.Open("writer")
			w.WaitUntil(sim.StepTimeout, func() bool { return w.Gate("writer").Waiting == 0 })
			w.ResetGate("writer")
		case "read-eof":
			conn.EndInbound(-1, io.EOF)
		case "read-reset":
			conn.EndInbound(-1, &netReset{})
		case "read-expiry-mid-packet":
			pk := wire.Publish("in/"+tag, []byte("payload"), 0, 0, false, false)
			if c.Rng.Intn(2) == 0 {
				// while the read routine waits inside the packet a write of
				// somebody else completes on the connection
				set(func() { gateMidRead = true })
				conn.Send(pk[:1+c.Rng.Intn(len(pk)-1)], "truncated PUBLISH, then silence")
				if w.WaitGateWaiting("midread", 1, sim.StepTimeout) {
					// (a single-buffer write: the answer is withheld, nothing comes in)
					w.Mu.Lock()
					held0 := len(w.Broker.Held)
					w.Mu.Unlock()
					wr := d.Go("Subscribe", func() error { return d.C.Subscribe(nil, "c10/await/meanwhile/"+tag) })
					w.WaitUntil(sim.StepTimeout, func() bool { return len(w.Broker.Held) > held0 || wr.Returned() })
					pending = append(pending, wr)
				}
				set(func() { gateMidRead = false })
				w.Open("midread")
				w.WaitUntil(sim.StepTimeout, func() bool { return w.Gate("midread").Waiting == 0 })
				w.ResetGate("midread")
				break
			}
			conn.Send(pk[:1+c.Rng.Intn(len(pk)-1)], "truncated PUBLISH, then silence")
		case "expiry-while-skipping-big-duplicate", "expiry-while-skipping-unread-big":
			// a message beyond the read buffer, complete; the read loop takes it
			level := byte(2)
			if kind == "expiry-while-skipping-unread-big" {
				level = byte(c.Rng.Intn(3))
			}
			big := sim.MarkerPayload(n, mqtt.VerifReadBufSize()+1000+c.Rng.Intn(5000))
			id := uint16(0x0700 + n)
			set(func() { skipBig = kind == "expiry-while-skipping-unread-big" })
			reads0 := d.ReadCount()
			full := wire.Publish("in/big/"+tag, big, level, id, false, false)
			if kind == "expiry-while-skipping-big-duplicate" {
				conn.Send(full, "big PUBLISH")
				// returned, and the next invocation saved the marker and wrote PUBREC
				if !w.WaitUntil(sim.StepTimeout, func() bool { return d.ReadCount() > reads0 && w.ReaderQuietLocked() }) {
					wedge("big message was not received")
					return
				}
				// the retransmission stalls inside its payload; what would follow looks like packets
				dup := wire.Publish("in/big/"+tag, big, level, id, true, false)
				cutAt := len(dup) - 1000 - c.Rng.Intn(900)
				conn.Send(dup[:cutAt], "big PUBLISH again, then silence inside the payload")
			} else {
				cutAt := len(full) - 1000 - c.Rng.Intn(900)
				conn.Send(full[:cutAt], "big PUBLISH, silence inside the payload")
			}
		case "violation-inside-big-publish":
			// packet identifier zero, or the reserved level 3, on a message beyond the
			// read buffer; what the client parked for it must not outlive the connection
			big := sim.MarkerPayload(n, mqtt.VerifReadBufSize()+500+c.Rng.Intn(3000))
			pk := wire.Publish("in/bad/"+tag, big, byte(1+c.Rng.Intn(2)), 0x0101, false, false)
			if c.Rng.Intn(2) == 0 {
				pk[0] |= 6 // level 3
			} else {
				// identifier zero: the two bytes behind the topic
				hl, _, _ := wire.Header(pk)
				tl := int(pk[hl])<<8 | int(pk[hl+1])
				pk[hl+2+tl], pk[hl+2+tl+1] = 0, 0
			}
			conn.Send(pk, "big PUBLISH that violates the protocol")
		case "protocol-violation":
			conn.Send(directed[c.Rng.Intn(8)].b, "protocol violation")
		case "ack-write-fails":
			set(func() { failAck = true })
			w.Broker.Publish("in/"+tag, []byte("m"), byte(1+c.Rng.Intn(2)), false)
		case "dial-fails-n-times":
			set(func() { failDials = 1 + c.Rng.Intn(5) })
			conn.EndInbound(-1, io.EOF)
		case "dial-fails-for-long":
			// enough failures in a row for the doubling of the backoff to leave
			// any integer range, were it not bounded
			set(func() { failDials = 50 + c.Rng.Intn(30) })
			conn.EndInbound(-1, io.EOF)
		case "client-identifier-load-fails":
			set(func() { failLoadID = 1 + c.Rng.Intn(2) })
			conn.EndInbound(-1, io.EOF)
		case "handshake-fails":
			set(func() { failHandshake = 1 + c.Rng.Intn(3) })
			conn.EndInbound(-1, io.EOF)
		case "refused":
			set(func() { refuse = 1 + c.Rng.Intn(2) })
			conn.EndInbound(-1, &netReset{})
		case "publish-during-resend":
			// a transfer of each level is pending; the connection goes; the resend of
			// the first stalls on the new connection, and persisted publishes of both
			// levels arrive meanwhile
			set(func() {
				w.Broker.AckPolicy = func(b *sim.Broker, cn *sim.Conn, p *wire.Packet, reply []byte) string { return "hold" }
			})
			d.Publish(1, false, 3)
			d.Publish(2, false, 3)
			w.WaitReaderQuiet(sim.StepTimeout)
			set(func() { gateResend = true; w.Broker.AckPolicy = awaitPolicy })
			conn.EndInbound(-1, io.EOF)
			if !w.WaitGateWaiting("resend", 1, sim.StepTimeout) {
				wedge("the resend never reached its gate")
				return
			}
			done := make(chan struct{}, 2)
			for _, lvl := range []int{2, 1} {
				lvl := lvl
				go func() { d.Publish(lvl, false, 3); done <- struct{}{} }()
			}
			// (they wait for the sequence locks of the resend, or not: either way)
			w.WaitUntil(50*time.Millisecond, func() bool { return false })
			w.Open("resend")
			for i := 0; i < 2; i++ {
				select {
				case <-done:
				case <-time.After(sim.StepTimeout):
					wedge("a persisted publish issued during the resend never returned")
					return
				}
			}
			w.ResetGate("resend")
		case "resend-fails":
			set(func() {
				w.Broker.AckPolicy = func(b *sim.Broker, cn *sim.Conn, p *wire.Packet, reply []byte) string { return "hold" }
			})
			d.Publish(1, false, 3)
			d.Publish(2, false, 3)
			w.WaitReaderQuiet(sim.StepTimeout)
			set(func() { failResend = 1 + c.Rng.Intn(2); w.Broker.AckPolicy = awaitPolicy })
			conn.EndInbound(-1, io.EOF)
		}
		// the failure is noticed: the connection gets closed, a new dial follows
		if !w.WaitUntil(sim.StepTimeout, func() bool { return conn.Closed() }) {
			if !wedge(fmt.Sprintf("connection %d was not closed after %s", conn.Idx, kind)) {
				return
			}
		}
		if !w.WaitUntil(sim.StepTimeout, func() bool { return w.Dials > dials0 }) {
			if !wedge("no new dial after " + kind) {
				return
			}
		}
		if !awaitOnline(kind) {
			return
		}
		// every request pending on the failed connection got released
		for _, p := range pending {
			if !w.WaitUntil(sim.StepTimeout, func() bool { return p.Returned() }) {
				wedge(fmt.Sprintf("%s pending on connection %d never returned after %s", p.Method, conn.Idx, kind))
				return
			}
		}
		pending = nil
		w.Broker.ReleaseHeld()
		if !probe(kind) {
			d.CloseAndWait()
			return
		}
		c.Trigger(prevKind + ">" + kind)
		prevKind = kind
	}
	// persisted publishes complete in the end
	w.Broker.ReleaseHeld()
	if st, report := ep.awaitOrDiagnose("persisted publishes complete", d.AllClosed); st != "" {
		if st == "wedged" {
			dt := detail()
			dt["report"] = report
			c.Violate("no-progress-after-faults-stopped", "persisted publishes did not complete", dt)
		} else {
			c.Inconclusive("slow drain")
		}
		c.Spoiled()
		return
	}
	// ReadBackoff: within bounds, by the documented ramp-up, never early
	checkBackoff(c, ep, detail)
	for _, e := range d.BackoffNil {
		c.Violate("readbackoff-nil", fmt.Sprintf("ReadBackoff returned nil for %q", e), detail())
	}
	if d.BackoffStuck {
		c.Violate("readbackoff-never-closes", "a ReadBackoff channel did not close", detail())
	}
	// the client is on its latest connection; every earlier one got closed
	w.Mu.Lock()
	var open []int
	for _, cn := range w.Conns[:max(len(w.Conns)-1, 0)] {
		if !cn.Closed() {
			open = append(open, cn.Idx)
		}
	}
	w.Mu.Unlock()
	if len(open) != 0 {
		c.Violate("failed-connection-left-open", fmt.Sprintf("connections %v were left for later ones and never closed", open), detail())
	}
	if !d.CloseAndWait() {
		c.Spoiled()
	}
	c.Count("incidents", len(kinds))
	c.Count("requests_awaiting_an_answer_at_the_incident", awaited)
	c.Count("connections", len(w.Conns))
	c.Sample(map[string]any{"incidents": kinds, "connections": len(w.Conns)})
}

// checkBackoff replays the documented ramp-up against the idle durations the
// client chose (exposed through verifNote) and the time the channels took.
func checkBackoff(c *run.Ctx, ep *Episode, detail func() map[string]any) {
	w := ep.W
	w.Mu.Lock()
	defer w.Mu.Unlock()
	wait := time.Duration(0)
	var lastErr string
	var lastIdle time.Duration
	haveIdle := false
	checked := 0
	for _, e := range w.Trace {
		switch {
		case e.Kind == "point" && e.Note == "connect.resent":
			wait = 0
		case e.Kind == "rs.ret" && e.Err != "":
			lastErr = e.Err
		case e.Kind == "note" && e.Note == "readbackoff.idle":
			idle := time.Duration(e.N)
			lastIdle, haveIdle = idle, true
			checked++
			switch {
			case strings.HasPrefix(lastErr, "[refused] "):
				if idle != c10Max {
					ep.Ctx.Violate("readbackoff-refusal-not-max", fmt.Sprintf("ReadBackoff after %q idles %v, want ReconnectWaitMax %v", lastErr, idle, c10Max), nil)
				}
			case idle == time.Second:
				// the persistence case
			default:
				want := wait
				if want < c10Min {
					want = c10Min
				}
				if want > c10Max {
					want = c10Max
				}
				if idle < c10Min || idle > c10Max {
					ep.Ctx.Violate("readbackoff-out-of-bounds", fmt.Sprintf("ReadBackoff after %q idles %v, outside [%v, %v]", lastErr, idle, c10Min, c10Max), nil)
				} else if idle != want {
					ep.Ctx.Violate("readbackoff-ramp-up", fmt.Sprintf("ReadBackoff after %q idles %v, the documented doubling gives %v", lastErr, idle, want), nil)
				}
				wait = idle * 2
			}
		case e.Kind == "backoff.waited" && haveIdle:
			haveIdle = false
			if got := time.Duration(e.N); got < lastIdle {
				ep.Ctx.Violate("readbackoff-closed-early", fmt.Sprintf("the ReadBackoff channel closed after %v, the client chose %v", got, lastIdle), nil)
			}
		}
	}
	c.Count("readbackoff_durations_checked", checked)
}

func init() {
	run.Register(&run.Prop{
		ID:    "C10",
		Level: "fault_enumeration",
		Cases: func(tier string) int {
			if tier == "thorough" {
				return 8000
			}
			return 2100
		},
		ChunkSize:   25,
		Rule:        "each case strings 1-5 incidents on one client with an always-calling read loop that waits on ReadBackoff (ReconnectWaitMin 2 ms, Max 16 ms). Incident kinds place a failure relative to the read routine with hook parking and connection gates: another goroutine's request write (Publish, Subscribe, Ping) fails while the read routine is parked right before its acknowledgement flush, parked between saving and writing a PUBREL, blocked in Read, or after it flushed; the read routine meets a protocol violation while a writer is stuck inside Write holding the connection; EOF, reset, expiry inside a packet, a protocol violation; the broker falls silent inside the payload of a message beyond the read buffer that is being skipped (a retransmitted exactly-once duplicate, or one the application chose not to read); the acknowledgement's own write fails; 1-5 consecutive dial failures (plain errors, errors that wrap context.Canceled or DeadlineExceeded, net.ErrClosed, unexpected EOF: none means the Client was closed); a PUBLISH beyond the read buffer that is itself a protocol violation; 1-3 handshakes cut; refusals; resend failures with transfers pending; persisted publishes of both levels issued while the resend of a reconnect is stalled inside a write; a retransmitted exactly-once PUBLISH (its PUBREC is owed at once) met by the read routine after a writer's failure set the connection pending. Before every second incident a Subscribe is brought to the point where it awaits its (withheld) answer on the connection. One case in a hundred runs the package's own NewDialer and NewTLSDialer on loopback sockets against a listener that accepts and stays silent (no TLS handshake, no CONNACK), accepts and closes, or is gone, with PauseTimeout 150 ms: every ReadSlices fails (wedged is decided on unchanged stacks after forty timeouts on a process that gets processor time) and the next one dials again. Oracle after each incident: the failed connection gets closed, the Dialer is invoked again, every request pending on that connection returns, Online is released and a Ping succeeds; 'does not happen' is decided structurally (no event and identical goroutine stacks for the stability window) with the dump as witness. ReadBackoff: non-nil for every error but ErrClosed, idle duration (seen through verifNote) inside [Min, Max], equal to Max after refusals and to the documented doubling otherwise, channel never closed earlier than that duration. Non-trivial: every incident; distinct by incident kind sequence.",
		Assumptions: []string{"the stability window is 1.5 s (75 periods of the client's only periodic timer) after an 8 s watchdog; a watchdog expiry with events still flowing is inconclusive", "real time is used to hold nothing; the early-close check of ReadBackoff is the one sound direction of a wall-clock comparison"},
		Run: func(c *run.Ctx) {
			n := 1 + c.Rng.Intn(5)
			var kinds []string
			for i := 0; i < n; i++ {
				kinds = append(kinds, incidentKinds[c.Rng.Intn(len(incidentKinds))])
			}
			if c.Case < len(incidentKinds) {
				kinds = []string{incidentKinds[c.Case]}
			}
			if c.Case%100 == 98 {
				kinds = []string{"dial-fails-for-long"}
			}
			if c.Case%100 == 99 {
				// the package's own Dialers on real loopback sockets
				k := c.Case / 100
				c10BuiltinDialers(c, k%2 == 0, []string{"accepts and stays silent", "accepts and closes", "is gone"}[k/2%3])
				return
			}
			runIncidents(c, kinds)
		},
	})
}
