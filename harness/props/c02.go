package props

import (
	"bytes"
	"fmt"
	"os"
	"sort"
	"strings"

	"github.com/pascaldekloe/mqtt"

	"verif/run"
	"verif/sim"
	"verif/wire"
)

// rec is one outbound record of a stop point, with the identity of its message.
type rec struct {
	Key    uint
	Marker int    // message number
	Level  int    // 1 or 2
	Rel    bool   // stored as PUBREL
	Packet []byte // stored packet
	Ord    int    // acceptance order within the level, across generations
}

// lineage carries the identity of records across generations.
type lineage struct {
	owner map[uint]int // key -> marker, for PUBREL records
	ord   map[int]int  // marker -> acceptance order
	next  int
}

func (l *lineage) clone() *lineage {
	n := &lineage{owner: map[uint]int{}, ord: map[int]int{}, next: l.next}
	for k, v := range l.owner {
		n.owner[k] = v
	}
	for k, v := range l.ord {
		n.ord[k] = v
	}
	return n
}

// stopPoint is a crash point with what is known about it.
type stopPoint struct {
	snap sim.Snap
	lin  *lineage
	desc string
}

// pendingOf lists the outbound records of a store content.
func pendingOf(content map[uint][]byte, lin *lineage) (recs []rec, err error) {
	for _, key := range sim.Keys(content) {
		if key < 0x8000 || key > 0xffff {
			continue
		}
		pkt, e := wire.Decode(stripTrailer(content[key]), true)
		if e != nil {
			return nil, fmt.Errorf("record %#x does not decode: %v", key, e)
		}
		r := rec{Key: key, Level: 1, Packet: pkt.Raw}
		if key >= 0xc000 {
			r.Level = 2
		}
		switch pkt.Type {
		case wire.PUBLISH:
			r.Marker = markerOfTopic(pkt.Topic)
		case wire.PUBREL:
			r.Rel = true
			r.Marker = lin.owner[key]
		}
		if r.Marker == 0 {
			return nil, fmt.Errorf("record %#x has no known message", key)
		}
		r.Ord = lin.ord[r.Marker]
		recs = append(recs, r)
	}
	sort.Slice(recs, func(i, j int) bool {
		if recs[i].Level != recs[j].Level {
			return recs[i].Level < recs[j].Level
		}
		return recs[i].Ord < recs[j].Ord
	})
	return recs, nil
}

// lineageFrom extends the lineage with what happened in a world up to the
// stop point.
func lineageFrom(parent *lineage, a *pubAnalysis, upTo int64) *lineage {
	l := parent.clone()
	// new messages in save order
	var pis []*pubInfo
	for _, pi := range a.pubs {
		if pi.saveTry != nil && pi.saveTry.CallSeq <= upTo {
			pis = append(pis, pi)
		}
	}
	sort.Slice(pis, func(i, j int) bool { return pis[i].saveTry.CallSeq < pis[j].saveTry.CallSeq })
	for _, pi := range pis {
		if _, ok := l.ord[pi.pub.N]; !ok {
			l.next++
			l.ord[pi.pub.N] = l.next
		}
		if pi.save != nil && pi.save.RetSeq <= upTo {
			l.owner[pi.key] = pi.pub.N
		}
	}
	return l
}

type adoptStats struct {
	adoptions, withPending, gen2, fs, spools int
	maxPending                               int
	shapes                                   map[string]bool
}

// adoptAndCheck restarts on a stop point and verifies what is resumed.
// It returns stop points of the adopted run for the next generation.
func adoptAndCheck(c *run.Ctx, sp stopPoint, gen int, wantNext bool, st *adoptStats, marker *int) (next []stopPoint) {
	expect, err := pendingOf(sp.snap.Store, sp.lin)
	if err != nil {
		c.Violate("stop-point-unreadable", sp.desc+": "+err.Error(), nil)
		return nil
	}
	st.adoptions++
	if len(expect) > 0 {
		st.withPending++
	}
	st.maxPending = max(st.maxPending, len(expect))

	w := sim.NewWorld(c.Rng.Int63())
	defer w.Shutdown()
	sim.InstallHooks(w)
	w.RequireDeadlines = true
	useFS := c.Rng.Intn(8) == 0
	var dir string
	if useFS {
		var e error
		dir, e = os.MkdirTemp("", "verif-c02-")
		if e != nil {
			useFS = false
		} else {
			defer os.RemoveAll(dir)
			fs := mqtt.FileSystem(dir)
			for k, v := range sp.snap.Store {
				if e := fs.Save(k, [][]byte{v}); e != nil {
					c.Inconclusive("cannot plant the FileSystem store: " + e.Error())
					return nil
				}
			}
			// a stop inside a Save leaves its spool file behind, next to the previous
			// value of that key; the stores must look the same with it
			if ks := sim.Keys(sp.snap.Store); len(ks) > 0 && c.Rng.Intn(2) == 0 {
				k := ks[c.Rng.Intn(len(ks))]
				v := sp.snap.Store[k]
				os.WriteFile(fmt.Sprintf("%s/%05x.spool", dir, k), v[:c.Rng.Intn(len(v)+1)], 0o600)
				st.spools++
			}
			w.Store.Inner = fs
			st.fs++
		}
	}
	w.Store.Plant(sp.snap.Store)
	w.Mu.Lock()
	w.Broker.State = sp.snap.Broker.Clone()
	w.TakeSnaps = wantNext
	// harmless fragmentation only
	w.ReadPlan = func(cn *sim.Conn, avail int) sim.ReadDecision {
		if avail > 1 && w.Rng.Intn(3) == 0 {
			return sim.ReadDecision{Deliver: 1 + w.Rng.Intn(avail-1)}
		}
		if avail == 0 {
			return sim.ReadDecision{Then: "block"}
		}
		return sim.ReadDecision{Deliver: -1}
	}
	holdNew := wantNext
	w.Broker.AckPolicy = func(b *sim.Broker, cn *sim.Conn, p *wire.Packet, reply []byte) string {
		if holdNew && w.Rng.Intn(2) == 0 {
			return "hold"
		}
		return ""
	}
	w.Mu.Unlock()

	cfg := mqtt.Config{Dialer: w.Dialer(), PauseTimeout: 3600e9, ReconnectWaitMin: 1000, ReconnectWaitMax: 1000, AtLeastOnceMax: -1, ExactlyOnceMax: -1}
	if c.Rng.Intn(2) == 0 {
		n1, n2 := 0, 0
		for _, r := range expect {
			if r.Level == 1 {
				n1++
			} else {
				n2++
			}
		}
		cfg.AtLeastOnceMax, cfg.ExactlyOnceMax = n1+2, n2+2
	}
	detail := func() map[string]any {
		var ex []string
		for _, r := range expect {
			ex = append(ex, fmt.Sprintf("%#x:m%d:rel=%v", r.Key, r.Marker, r.Rel))
		}
		return map[string]any{"stop_point": sp.desc, "generation": gen, "expected_pending": ex, "store_keys": fmt.Sprintf("%x", sim.Keys(sp.snap.Store)), "trace_tail": w.TraceTail(60), "file_system": useFS}
	}

	cl, warn, fatal := mqtt.AdoptSession(w.Store, &cfg)
	if fatal != nil {
		c.Violate("adopt-fatal", fmt.Sprintf("AdoptSession failed on a stop point: %v", fatal), detail())
		return nil
	}
	if len(warn) != 0 {
		c.Violate("adopt-warns", fmt.Sprintf("AdoptSession warned on an undamaged stop point: %v", warn[0]), detail())
	}
	w.Log(sim.Event{Kind: "adopt", N: gen})
	d := sim.NewDriver(w, cl, marker, gen)
	d.StartReader()

	// the first connection completes its resend
	ok := w.WaitUntil(sim.StepTimeout, func() bool { return w.PointCountLocked("connect.resent") > 0 })
	if !ok {
		wedged, report := w.Diagnose(1500e6)
		if wedged {
			c.Violate("adopted-client-stuck", "adopted client did not finish its first connect", map[string]any{"report": report, "d": detail()})
		} else {
			c.Inconclusive("adopted client slow to connect")
		}
		c.Spoiled()
		return nil
	}

	// what the first connection carries before the end of the resend
	w.Mu.Lock()
	conn := w.Conns[0]
	endOff := len(conn.Out)
	for _, e := range w.Trace {
		if e.Kind == "point" && e.Note == "connect.resent" && e.Conn == 1 {
			endOff = e.Off
			break
		}
	}
	pk, _, perr := wire.ParseStream(conn.Out[:endOff], true)
	w.Mu.Unlock()
	if perr != nil {
		c.Violate("malformed-outbound-stream", perr.Error(), detail())
		return nil
	}
	if len(pk) == 0 || pk[0].Type != wire.CONNECT {
		c.Violate("first-packet-not-connect", "adopted client did not start with CONNECT", detail())
		return nil
	}
	got := pk[1:]
	mismatch := ""
	if len(got) != len(expect) {
		mismatch = fmt.Sprintf("resumed %d transfers, want %d", len(got), len(expect))
	} else {
		for i, p := range got {
			e := expect[i]
			want := append([]byte(nil), e.Packet...)
			have := append([]byte(nil), p.Raw...)
			if p.Type == wire.PUBLISH {
				want[0] &^= 8
				have[0] &^= 8
			}
			if !bytes.Equal(want, have) {
				mismatch = fmt.Sprintf("transfer %d: wrote %s, want record %#x of message %d (PUBREL=%v)", i, p, e.Key, e.Marker, e.Rel)
				break
			}
		}
	}
	if mismatch != "" {
		var g []string
		for _, p := range got {
			g = append(g, p.String())
		}
		dt := detail()
		dt["written"] = g
		sig := "resumed-set-differs"
		if len(got) < len(expect) {
			sig = "resumed-set-misses-transfers"
		}
		c.Violate(sig, "first connection after restart: "+mismatch, dt)
		d.CloseAndWait()
		return nil
	}

	// continue the sequence with new publishes
	lastKey := map[int]uint{}
	pendingKeys := map[uint]bool{}
	for _, r := range expect {
		lastKey[r.Level] = r.Key
		pendingKeys[r.Key] = true
	}
	nNew := 1 + c.Rng.Intn(3)
	var newPubs []*sim.Pub
	for i := 0; i < nNew; i++ {
		lvl := 1 + c.Rng.Intn(2)
		p := d.Publish(lvl, false, c.Rng.Intn(40))
		if p.Err != nil {
			full := false
			n := 0
			for _, r := range expect {
				if r.Level == lvl {
					n++
				}
			}
			mx := cfg.AtLeastOnceMax
			if lvl == 2 {
				mx = cfg.ExactlyOnceMax
			}
			// earlier new publishes and unfinished old ones occupy slots
			if mx >= 0 && n+len(newPubs) >= mx {
				full = true
			}
			if !full {
				c.Violate("publish-refused-after-adopt", fmt.Sprintf("publish on the adopted client failed: %v", p.Err), detail())
			}
			continue
		}
		newPubs = append(newPubs, p)
	}
	// identifiers of the new ones
	w.Mu.Lock()
	for _, op := range w.Store.Ops {
		if op.Op != "save" || op.Err || op.Key < 0x8000 {
			continue
		}
		pkt, e := wire.Decode(stripTrailer(op.Value), true)
		if e != nil || pkt.Type != wire.PUBLISH {
			continue
		}
		lvl := 1
		if op.Key >= 0xc000 {
			lvl = 2
		}
		n := markerOfTopic(pkt.Topic)
		isNew := false
		for _, p := range newPubs {
			if p.N == n {
				isNew = true
			}
		}
		if !isNew {
			continue
		}
		if pendingKeys[op.Key] {
			c.Violate("identifier-collision-after-adopt", fmt.Sprintf("new publish got identifier %#x which is still pending from before the restart", op.Key), nil)
		}
		if lk, ok := lastKey[lvl]; ok {
			wantKey := lk&^0x3fff | (lk+1)&0x3fff
			if op.Key != wantKey {
				c.Violate("sequence-not-continued", fmt.Sprintf("new publish on level %d got identifier %#x, want %#x after %#x", lvl, op.Key, wantKey, lk), nil)
			}
		}
		lastKey[lvl] = op.Key
		pendingKeys[op.Key] = true
	}
	w.Mu.Unlock()

	// run to completion
	w.Mu.Lock()
	holdNew = false
	w.Mu.Unlock()
	w.Broker.ReleaseHeld()
	done := func() bool {
		if !d.AllClosed() {
			return false
		}
		for k := range w.Store.CurrentLocked() {
			if k >= 0x8000 && k <= 0xffff {
				return false
			}
		}
		return true
	}
	if !w.WaitUntil(sim.StepTimeout, done) {
		wedged, report := w.Diagnose(1500e6)
		if w.WaitUntil(1e6, done) {
			wedged = false
		} else if wedged {
			dt := detail()
			dt["report"] = report
			c.Violate("resumed-transfers-never-complete", "adopted client went idle with resumed or new transfers incomplete", dt)
		} else {
			c.Inconclusive("adopted run slow to complete")
		}
		c.Spoiled()
		return next
	}
	// stop points of this generation for the next one: a sample over the whole run
	if wantNext {
		ep := &Episode{Ctx: c, W: w, D: d, F: &Faults{}}
		a := analyzePubs(ep, d.PubsSnapshot(), false)
		w.Mu.Lock()
		snaps := append([]sim.Snap(nil), w.Snaps...)
		w.Mu.Unlock()
		seenStore := map[string]bool{}
		var cand []sim.Snap
		for _, s := range snaps {
			k := fmt.Sprintf("%x|%d", sim.Keys(s.Store), len(s.Broker.AwaitRel))
			if seenStore[k] {
				continue
			}
			seenStore[k] = true
			cand = append(cand, s)
		}
		c.Rng.Shuffle(len(cand), func(i, j int) { cand[i], cand[j] = cand[j], cand[i] })
		if len(cand) > 4 {
			cand = cand[:4]
		}
		for _, s := range cand {
			lin := lineageFrom(sp.lin, a, s.Seq)
			next = append(next, stopPoint{snap: s, lin: lin, desc: fmt.Sprintf("%s → gen %d stop at #%d (%s)", sp.desc, gen, s.Seq, s.Note)})
		}
	}
	// delivery: every message at least once, exactly-once ones exactly once
	dtDelivery := detail() // (takes the lock itself)
	w.Mu.Lock()
	count := map[int]int{}
	for _, dl := range w.Broker.State.Deliveries {
		count[markerOfTopic(dl.Topic)]++
	}
	for _, r := range expect {
		n := count[r.Marker]
		if n == 0 {
			c.Violate("resumed-message-never-delivered", fmt.Sprintf("message %d (record %#x) was pending at the stop yet never reached the broker's subscribers", r.Marker, r.Key), dtDelivery)
		}
		if r.Level == 2 && n > 1 {
			c.Violate("exactly-once-delivered-twice", fmt.Sprintf("exactly-once message %d reached the broker's subscribers %d times across restarts", r.Marker, n), dtDelivery)
		}
	}
	for _, p := range newPubs {
		if n := count[p.N]; n == 0 || p.Level == 2 && n > 1 {
			c.Violate("new-message-delivery", fmt.Sprintf("message %d published after the restart was delivered %d times", p.N, n), dtDelivery)
		}
	}
	for _, o := range w.Online {
		_ = o
	}
	w.Mu.Unlock()
	if len(expect) > 0 {
		var sh []string
		n1, n2, nr := 0, 0, 0
		for _, r := range expect {
			switch {
			case r.Rel:
				nr++
			case r.Level == 1:
				n1++
			default:
				n2++
			}
		}
		wrap := false
		for i := 1; i < len(expect); i++ {
			if expect[i].Level == expect[i-1].Level && expect[i].Key < expect[i-1].Key {
				wrap = true
			}
		}
		sh = append(sh, fmt.Sprintf("gen%d|q1=%d|q2=%d|rel=%d|wrap=%v|await=%d", gen, min(n1, 4), min(n2, 4), min(nr, 4), wrap, min(len(sp.snap.Broker.AwaitRel), 3)))
		st.shapes[strings.Join(sh, "")] = true
	}
	if !d.CloseAndWait() {
		c.Spoiled()
	}
	return next
}

func init() {
	run.Register(&run.Prop{
		ID:    "C02",
		Level: "fault_enumeration",
		Cases: func(tier string) int {
			if tier == "thorough" {
				return 2500
			}
			return 240
		},
		ChunkSize:   8,
		Rule:        "each case runs a C01-style fault episode with a snapshot of (Persistence content, broker state) after every store mutation and broker transition; every distinct snapshot is a stop point: a fresh world is planted with it, AdoptSession runs (in-memory store, 1 in 8 on mqtt.FileSystem, half of those with the spool file of an interrupted Save left next to a record), the first connection's resend is compared byte for byte with the records pending at the stop (order, identifiers, PUBLISH/PUBREL stage), new publishes must continue the sequence, and the run must complete with every message delivered (exactly-once: once across all generations). The adopted run is itself snapshotted and stopped again (generation 2, thorough: 3) with old and new transfers pending; 1 in 3 cases has 2-4 publisher goroutines on both levels with scheduling noise at the entry of Persistence.Save (a slow Save overlaps others); 1 in 4 cases ends with Close or Disconnect while a publish sits between its Save and its write (a call that reports an error must not leave a record to resume); 1 in 6 cases positions both sequences at the 14-bit wrap by really completing 16,38x publishes first. Non-trivial: adoption with >= 1 pending record; distinct by generation, pending counts per stage, wrap and broker handshake state.",
		Assumptions: []string{"a stop of the in-memory store is atomic per operation; the FileSystem variant plants whole files (process-kill atomicity is C19's subject)", "the broker state is captured at the same instant as the store, i.e. every byte the client wrote before the stop reached the broker", "see C01"},
		Run: func(c *run.Ctx) {
			pp := pubParams{NPub: 2 + c.Rng.Intn(10), Levels: [][]int{{1}, {2}, {1, 2}, {1, 2}}[c.Rng.Intn(4)], Conc: 1, Budget: c.Rng.Intn(5), SettleP: c.Rng.Float64(), BigP: 0.02, Snaps: true}
			if c.Case%3 == 1 {
				// publishers of both levels and the read routine save at the same time,
				// and a Save may be slow: the order of the records must survive that
				pp.Conc = 2 + c.Rng.Intn(3)
				pp.NPub = pp.Conc * (2 + c.Rng.Intn(6))
				pp.Levels = []int{1, 2}
				pp.SlowSaves = true
			}
			// the episode ends with Close or Disconnect while a publish sits between
			// its Save and its write: accepted or not, the store must agree
			pp.CloseMidPublish = c.Case%4 == 2
			wrap := c.Case%6 == 0
			if wrap {
				pp.Prelude[1] = 0x4000 - 1 - c.Rng.Intn(6)
				pp.Prelude[2] = 0x4000 - 1 - c.Rng.Intn(6)
				if len(pp.Levels) == 1 {
					pp.Prelude[3-pp.Levels[0]] = 0
				}
			}
			ep, a, all := runPubWorkload(c, pp)
			if a == nil {
				return
			}
			reportPubs(c, ep, a, all, "C02")
			st := &adoptStats{shapes: map[string]bool{}}
			root := &lineage{owner: map[uint]int{}, ord: map[int]int{}}
			snaps := ep.W.Snaps
			seen := map[string]bool{}
			var points []stopPoint
			for _, s := range snaps {
				k := fmt.Sprintf("%p|%d|%d", s.Store, len(s.Broker.AwaitRel), len(s.Broker.Deliveries))
				if seen[k] {
					continue
				}
				seen[k] = true
				points = append(points, stopPoint{snap: s, lin: lineageFrom(root, a, s.Seq), desc: fmt.Sprintf("gen 0 stop at #%d (%s)", s.Seq, s.Note)})
			}
			limit := 60
			depth := 2
			if c.Tier == "thorough" {
				limit, depth = 400, 3
			}
			if len(points) > limit {
				// keep an even sample
				var keep []stopPoint
				for i := 0; i < limit; i++ {
					keep = append(keep, points[i*len(points)/limit])
				}
				points = keep
			}
			marker := ep.Marker
			var walk func(sp stopPoint, gen int)
			walk = func(sp stopPoint, gen int) {
				more := adoptAndCheck(c, sp, gen, gen < depth && c.Rng.Intn(3) == 0, st, &marker)
				for _, n := range more {
					st.gen2++
					walk(n, gen+1)
				}
			}
			for _, sp := range points {
				walk(sp, 1)
			}
			c.Count("stop_points", len(points))
			c.Count("adoptions", st.adoptions)
			c.Count("adoptions_with_pending", st.withPending)
			c.Count("later_generation_adoptions", st.gen2)
			c.Count("file_system_adoptions", st.fs)
			c.Count("file_system_adoptions_with_spool_leftover", st.spools)
			if wrap {
				c.Count("wrap_positioned_cases", 1)
			}
			for s := range st.shapes {
				c.Trigger(s)
			}
			c.Sample(map[string]any{"stop_points": len(points), "adoptions": st.adoptions, "max_pending_at_stop": st.maxPending, "wrap_positioned": wrap, "faults_fired": ep.F.Fired})
		},
	})
}
