package props

import (
	"bytes"
	"context"
	"errors"
	"fmt"
	"io"
	"net"
	"os"
	"sync"
	"sync/atomic"
	"syscall"
	"time"

	"github.com/pascaldekloe/mqtt"

	"verif/run"
	"verif/sim"
	"verif/wire"
)

// sockPair returns a connected AF_UNIX stream pair with small kernel buffers.
// The client end is a *net.UnixConn, so net.Buffers takes the writev path and
// the kernel decides how much of a vectored write goes through.
func sockPair(sndbuf int) (client, broker net.Conn, err error) {
	fds, err := syscall.Socketpair(syscall.AF_UNIX, syscall.SOCK_STREAM|syscall.SOCK_CLOEXEC, 0)
	if err != nil {
		return nil, nil, err
	}
	syscall.SetsockoptInt(fds[0], syscall.SOL_SOCKET, syscall.SO_SNDBUF, sndbuf)
	syscall.SetsockoptInt(fds[1], syscall.SOL_SOCKET, syscall.SO_RCVBUF, sndbuf)
	f0, f1 := os.NewFile(uintptr(fds[0]), "client"), os.NewFile(uintptr(fds[1]), "broker")
	defer f0.Close()
	defer f1.Close()
	if client, err = net.FileConn(f0); err != nil {
		return nil, nil, err
	}
	if broker, err = net.FileConn(f1); err != nil {
		client.Close()
		return nil, nil, err
	}
	return client, broker, nil
}

// sockBroker reads everything the kernel accepted from the client, slowly, and
// answers like a broker.
type sockBroker struct {
	calm atomic.Bool // no more stalls: the workload is over
	mu   sync.Mutex
	logs [][]byte // per connection: every byte received
	wg   sync.WaitGroup
}

func (sb *sockBroker) serve(idx int, conn net.Conn, seed int64, stallEvery int, stall time.Duration) {
	defer sb.wg.Done()
	defer conn.Close()
	rng := newRand(seed)
	var pending []byte
	buf := make([]byte, 64<<10)
	reads := 0
	for {
		// pacing: mostly small sips, now and then a pause longer than the client's patience
		n, err := conn.Read(buf[:1+rng.Intn(len(buf))])
		if n > 0 {
			sb.mu.Lock()
			sb.logs[idx] = append(sb.logs[idx], buf[:n]...)
			sb.mu.Unlock()
			pending = append(pending, buf[:n]...)
			for {
				pkt, derr := wire.Decode(pending, true)
				if derr != nil {
					break // incomplete, or garbage: keep reading, the oracle judges the log
				}
				pending = pending[len(pkt.Raw):]
				var reply []byte
				switch pkt.Type {
				case wire.CONNECT:
					reply = wire.Connack(false, 0)
				case wire.PUBLISH:
					if pkt.QoS == 1 {
						reply = wire.Ack(wire.PUBACK, pkt.ID)
					} else if pkt.QoS == 2 {
						reply = wire.Ack(wire.PUBREC, pkt.ID)
					}
				case wire.PUBREL:
					reply = wire.Ack(wire.PUBCOMP, pkt.ID)
				case wire.SUBSCRIBE:
					reply = wire.Suback(pkt.ID, pkt.QoSs...)
				case wire.UNSUBSCRIBE:
					reply = wire.Ack(wire.UNSUBACK, pkt.ID)
				case wire.PINGREQ:
					reply = wire.Pingresp()
				}
				if reply != nil {
					conn.SetWriteDeadline(time.Now().Add(time.Second))
					conn.Write(reply)
				}
			}
		}
		if err != nil {
			return
		}
		reads++
		switch {
		case sb.calm.Load():
		case stallEvery > 0 && reads%stallEvery == 0:
			time.Sleep(stall)
		case rng.Intn(3) == 0:
			time.Sleep(time.Duration(rng.Intn(300)) * time.Microsecond)
		}
	}
}

type memStore struct {
	mu sync.Mutex
	m  map[uint][]byte
}

func (s *memStore) Load(key uint) ([]byte, error) {
	s.mu.Lock()
	defer s.mu.Unlock()
	if v, ok := s.m[key]; ok {
		return append([]byte{}, v...), nil
	}
	return nil, nil
}
func (s *memStore) Save(key uint, value net.Buffers) error {
	var flat []byte
	for _, b := range value {
		flat = append(flat, b...)
	}
	s.mu.Lock()
	defer s.mu.Unlock()
	s.m[key] = flat
	return nil
}
func (s *memStore) Delete(key uint) error {
	s.mu.Lock()
	defer s.mu.Unlock()
	delete(s.m, key)
	return nil
}
func (s *memStore) List() ([]uint, error) {
	s.mu.Lock()
	defer s.mu.Unlock()
	var ks []uint
	for k := range s.m {
		ks = append(ks, k)
	}
	return ks, nil
}

// c08Socket runs concurrent requests over real sockets whose reader is slower
// than the writers, with a PauseTimeout of a few milliseconds, so that the
// kernel hands back genuine partial write and writev results with deadline
// expiries. The oracle looks at bytes only.
func c08Socket(c *run.Ctx) {
	pause := time.Duration(3+c.Rng.Intn(20)) * time.Millisecond
	sndbuf := []int{4096, 16384, 65536}[c.Rng.Intn(3)]
	sb := &sockBroker{}
	stallEvery := []int{0, 40, 150}[c.Rng.Intn(3)]
	var dials atomic.Int32
	seeds := make(chan int64, 64)
	for i := 0; i < cap(seeds); i++ {
		seeds <- c.Rng.Int63()
	}
	var continued, continuedBuffers, writeFails atomic.Int64
	note := func(name string, v int64) {
		switch name {
		case "write.continue":
			continued.Add(1)
		case "writeBuffers.continue":
			continuedBuffers.Add(1)
		}
	}
	point := func(p string) {
		if p == "write.fail" {
			writeFails.Add(1)
		}
	}
	mqtt.VerifNoteHook.Store(&note)
	mqtt.VerifHook.Store(&point)
	defer mqtt.VerifNoteHook.Store(nil)
	defer mqtt.VerifHook.Store(nil)

	cfg := mqtt.Config{
		PauseTimeout:     pause,
		ReconnectWaitMin: time.Millisecond,
		ReconnectWaitMax: 4 * time.Millisecond,
		AtLeastOnceMax:   16,
		ExactlyOnceMax:   16,
		Dialer: func(ctx context.Context) (net.Conn, error) {
			cl, br, err := sockPair(sndbuf)
			if err != nil {
				return nil, err
			}
			dials.Add(1)
			sb.mu.Lock()
			idx := len(sb.logs)
			sb.logs = append(sb.logs, nil)
			sb.mu.Unlock()
			var seed int64
			select {
			case seed = <-seeds:
			default:
			}
			sb.wg.Add(1)
			go sb.serve(idx, br, seed, stallEvery, 3*pause)
			return cl, nil
		},
	}
	cl, err := mqtt.InitSession("sock-client", &memStore{m: map[uint][]byte{}}, &cfg)
	if err != nil {
		c.Violate("init-failed", err.Error(), nil)
		return
	}
	readerDone := make(chan struct{})
	go func() {
		defer close(readerDone)
		for {
			_, _, err := cl.ReadSlices()
			if err == nil {
				continue
			}
			if errors.Is(err, mqtt.ErrClosed) {
				return
			}
			var big *mqtt.BigMessage
			if errors.As(err, &big) {
				continue
			}
			if bo := cl.ReadBackoff(err); bo != nil {
				<-bo
			}
		}
	}()

	type sockReq struct {
		kind    string
		topic   string
		payload []byte
		retain  bool
		filters []string
		err     error
		done    bool
	}
	g := 1 + c.Rng.Intn(6)
	var mu sync.Mutex
	var reqs []*sockReq
	var exchanges []<-chan error
	var wg sync.WaitGroup
	for gi := 0; gi < g; gi++ {
		n := 2 + c.Rng.Intn(5)
		rng := newRand(c.Rng.Int63())
		wg.Add(1)
		go func(gi int) {
			defer wg.Done()
			for i := 0; i < n; i++ {
				tag := fmt.Sprintf("%d-%d", gi, i)
				r := &sockReq{}
				size := []int{0, 10, 3000, 70000, 300000, 1 << 20}[rng.Intn(6)]
				switch k := rng.Intn(10); {
				case k < 6:
					r.kind, r.topic, r.retain = "publish", "s/"+tag, rng.Intn(4) == 0
					r.payload = sim.MarkerPayload(gi*1000+i, size)
					mu.Lock()
					reqs = append(reqs, r)
					mu.Unlock()
					if r.retain {
						r.err = cl.PublishRetained(nil, r.payload, r.topic)
					} else {
						r.err = cl.Publish(nil, r.payload, r.topic)
					}
				case k < 7:
					r.kind, r.filters = "subscribe", []string{"f/" + tag, "f2/" + tag}
					mu.Lock()
					reqs = append(reqs, r)
					mu.Unlock()
					r.err = cl.Subscribe(nil, r.filters...)
				case k < 8:
					r.kind = "ping"
					mu.Lock()
					reqs = append(reqs, r)
					mu.Unlock()
					r.err = cl.Ping(nil)
				default:
					r.kind, r.topic = "persisted", "q/"+tag
					r.payload = sim.MarkerPayload(gi*1000+i, size)
					mu.Lock()
					reqs = append(reqs, r)
					mu.Unlock()
					var x <-chan error
					if rng.Intn(2) == 0 {
						x, r.err = cl.PublishAtLeastOnce(r.payload, r.topic)
					} else {
						x, r.err = cl.PublishExactlyOnce(r.payload, r.topic)
					}
					if r.err == nil {
						mu.Lock()
						exchanges = append(exchanges, x)
						mu.Unlock()
					}
				}
				r.done = true
			}
		}(gi)
	}
	allDone := make(chan struct{})
	go func() { wg.Wait(); close(allDone) }()
	select {
	case <-allDone:
	case <-time.After(60 * time.Second):
		c.Inconclusive("socket workload did not finish within the watchdog")
		cl.Close()
		c.Spoiled()
		return
	}
	// persisted publishes get a bounded chance to complete (not asserted here: C01's subject)
	sb.calm.Store(true)
	deadline := make(chan struct{})
	time.AfterFunc(5*time.Second, func() { close(deadline) })
	for _, x := range exchanges {
	drain:
		for {
			select {
			case _, ok := <-x:
				if !ok {
					break drain
				}
			case <-deadline:
				break drain
			}
		}
	}
	cl.Close()
	select {
	case <-readerDone:
	case <-time.After(10 * time.Second):
		c.Inconclusive("read routine did not end after Close")
		c.Spoiled()
		return
	}
	// every broker side reads until the end of its stream
	brokersDone := make(chan struct{})
	go func() { sb.wg.Wait(); close(brokersDone) }()
	select {
	case <-brokersDone:
	case <-time.After(20 * time.Second):
		c.Inconclusive("broker side did not drain its sockets")
		c.Spoiled()
		return
	}

	// ---- oracle: bytes only ----
	byTopic := map[string]*sockReq{}
	for _, r := range reqs {
		if r.topic != "" {
			byTopic[r.topic] = r
		}
	}
	complete := map[*sockReq]bool{}
	packets, fragments := 0, 0
	detail := func(extra string) map[string]any {
		return map[string]any{"pause_timeout": pause.String(), "send_buffer": sndbuf, "goroutines": g, "connections": len(sb.logs), "note": extra}
	}
	for ci, log := range sb.logs {
		pk, rest, perr := wire.ParseStream(log, true)
		if perr != nil {
			c.Violate("malformed-outbound-stream", fmt.Sprintf("socket connection %d: %v", ci+1, perr), detail(""))
			return
		}
		packets += len(pk)
		for i, p := range pk {
			switch p.Type {
			case wire.CONNECT:
				if i != 0 {
					c.Violate("unaccounted-packet", fmt.Sprintf("socket connection %d: CONNECT at packet %d", ci+1, i), detail(""))
				}
			case wire.PUBLISH:
				r := byTopic[p.Topic]
				if r == nil {
					c.Violate("unaccounted-packet", fmt.Sprintf("socket connection %d packet %d: PUBLISH to %q which nobody issued", ci+1, i, p.Topic), detail(""))
					continue
				}
				if !bytes.Equal(p.Payload, r.payload) {
					at := 0
					for at < len(p.Payload) && at < len(r.payload) && p.Payload[at] == r.payload[at] {
						at++
					}
					c.Violate("payload-differs-on-the-wire", fmt.Sprintf("socket connection %d: PUBLISH to %q carries %d payload bytes, issued %d, first difference at byte %d", ci+1, p.Topic, len(p.Payload), len(r.payload), at), detail(""))
					continue
				}
				if r.kind == "publish" && (p.QoS != 0 || p.Retain != r.retain) {
					c.Violate("unaccounted-packet", fmt.Sprintf("socket connection %d: PUBLISH to %q has flags %#x", ci+1, p.Topic, p.Flags), detail(""))
				}
				complete[r] = true
			}
		}
		if len(rest) != 0 {
			fragments++
			// a fragment ends the log by construction of the parser; it has to be
			// the beginning of something issued
			if rest[0]>>4 == wire.PUBLISH {
				if hl, _, herr := wire.Header(rest); herr == nil && len(rest) >= hl+2 {
					tl := int(rest[hl])<<8 | int(rest[hl+1])
					if len(rest) >= hl+2+tl {
						topic := string(rest[hl+2 : hl+2+tl])
						r := byTopic[topic]
						if r == nil {
							c.Violate("trailing-fragment-not-a-prefix", fmt.Sprintf("socket connection %d ends with a PUBLISH fragment to %q which nobody issued", ci+1, topic), detail(""))
						} else {
							body := rest[hl+2+tl:]
							if rest[0]&6 != 0 && len(body) >= 2 {
								body = body[2:]
							} else if rest[0]&6 != 0 {
								body = nil
							}
							if len(body) > len(r.payload) || !bytes.Equal(body, r.payload[:len(body)]) {
								c.Violate("trailing-fragment-not-a-prefix", fmt.Sprintf("socket connection %d ends with a PUBLISH fragment to %q whose %d payload bytes are no prefix of the issued payload", ci+1, topic, len(body)), detail(""))
							}
						}
					}
				}
			}
		}
	}
	for _, r := range reqs {
		if r.kind == "publish" && r.done && r.err == nil && !complete[r] {
			c.Violate("success-without-complete-packet", fmt.Sprintf("Publish to %q (%d bytes) returned nil yet no socket carried its packet in full", r.topic, len(r.payload)), detail(""))
		}
	}
	c.Count("socket_connections", len(sb.logs))
	c.Count("socket_packets_decoded", packets)
	c.Count("socket_trailing_fragments", fragments)
	c.Count("socket_partial_writes_continued", int(continued.Load()))
	c.Count("socket_partial_writev_continued", int(continuedBuffers.Load()))
	c.Count("socket_write_failures", int(writeFails.Load()))
	if continued.Load()+continuedBuffers.Load() > 0 {
		c.Trigger(fmt.Sprintf("socket|sndbuf=%d|pause=%dms|g=%d|writev-continued=%d|fails=%d", sndbuf, pause/time.Millisecond/8*8, min(g, 4), min(int(continuedBuffers.Load()), 4), min(int(writeFails.Load()), 3)))
	}
	c.Sample(map[string]any{"scenario": "AF_UNIX sockets", "pause_timeout": pause.String(), "send_buffer": sndbuf, "connections": len(sb.logs), "partial_writev_continued": continuedBuffers.Load(), "partial_write_continued": continued.Load(), "write_failures": writeFails.Load(), "packets": packets})
	_ = io.EOF
}
