package props

import (
	"errors"
	"fmt"

	"github.com/pascaldekloe/mqtt"

	"verif/run"
	"verif/sim"
	"verif/wire"
)

// runFullWindow fills the in-flight window of one level against a broker that
// withholds every acknowledgement, expects ErrMax at the limit, then lets the
// broker answer and checks completion. ConfigMax is the raw Config value.
func runFullWindow(c *run.Ctx, level, configMax int, extra int) (*Episode, *pubAnalysis, []*sim.Pub) {
	ep := newEpisode(c)
	defer ep.W.Shutdown()
	ep.W.DataCap = 64
	want := configMax
	if want < 0 || want > 0x4000 {
		want = 0x4000
	}
	ep.Cfg.AtLeastOnceMax, ep.Cfg.ExactlyOnceMax = 3, 3
	if level == 1 {
		ep.Cfg.AtLeastOnceMax = configMax
	} else {
		ep.Cfg.ExactlyOnceMax = configMax
	}
	if err := ep.Init(); err != nil {
		c.Violate("init-failed", err.Error(), nil)
		return ep, nil, nil
	}
	ep.W.Mu.Lock()
	ep.W.Broker.AckPolicy = func(b *sim.Broker, cn *sim.Conn, p *wire.Packet, reply []byte) string { return "hold" }
	ep.W.Mu.Unlock()
	ep.D.StartReader()
	ep.W.WaitIdle(sim.StepTimeout)

	accepted := 0
	for i := 0; i < want+extra; i++ {
		p := ep.D.Publish(level, false, 3)
		if p.Err == nil {
			accepted++
			if accepted > want {
				c.Violate("accepted-beyond-maximum", fmt.Sprintf("level %d: publish %d accepted with Config maximum %d (effective %d) and nothing acknowledged", level, accepted, configMax, want), nil)
				break
			}
			continue
		}
		if accepted < want {
			c.Violate("refused-below-maximum", fmt.Sprintf("level %d: publish %d refused with %q, Config maximum %d (effective %d)", level, i+1, p.Err, configMax, want), nil)
			break
		}
		if !errors.Is(p.Err, mqtt.ErrMax) {
			c.Violate("refusal-not-errmax", fmt.Sprintf("level %d: publish beyond the maximum got %q", level, p.Err), nil)
		}
		// refusal must be without effect on store and wire
		ep.W.Mu.Lock()
		for _, e := range ep.W.Trace {
			if e.Seq > p.CallSeq && e.Seq < p.RetSeq && (e.Kind == "write" || e.Kind == "store.save" || e.Kind == "store.delete") {
				c.Violate("refused-publish-has-effect", fmt.Sprintf("level %d: refused publish did %s between call and return", level, e.Kind), nil)
			}
		}
		ep.W.Mu.Unlock()
	}
	c.Count("window_filled", accepted)

	// the broker answers now
	ep.W.Mu.Lock()
	ep.W.Broker.AckPolicy = nil
	ep.W.Mu.Unlock()
	ep.W.Broker.ReleaseHeld()
	pubs := ep.D.PubsSnapshot()
	_ = pubs
	status, report := ep.awaitOrDiagnose("window drains once the broker answers", ep.D.AllClosed)
	final := status == ""
	if status == "wedged" {
		c.Violate("no-progress-after-faults-stopped", "window did not drain", map[string]any{"report": report, "trace_tail": ep.W.TraceTail(40)})
		c.Spoiled()
	} else if status == "slow" {
		c.Inconclusive("window drain exceeded the watchdog")
		c.Spoiled()
	}
	// capacity is back
	if final {
		if p := ep.D.Publish(level, false, 1); p.Err != nil && want > 0 {
			c.Violate("capacity-not-restored", fmt.Sprintf("level %d: publish after drain refused: %v", level, p.Err), nil)
		}
		ep.W.WaitUntil(sim.StepTimeout, ep.D.AllClosed)
		ep.W.WaitIdle(sim.StepTimeout)
	}
	all := ep.D.PubsSnapshot()
	a := analyzePubs(ep, all, final)
	if !ep.D.CloseAndWait() {
		c.Spoiled()
	}
	return ep, a, all
}
