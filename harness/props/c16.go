package props

import (
	"bytes"
	"errors"
	"fmt"
	"os"
	"path/filepath"
	"regexp"
	"sort"
	"strconv"
	"strings"
	"syscall"
	"time"

	"github.com/pascaldekloe/mqtt"

	"verif/run"
	"verif/sim"
	"verif/wire"
)

// c16State is a Persistence content with the broker state of the same instant
// and what the oracle knows about the records.
type c16State struct {
	content  map[uint][]byte
	broker   sim.BrokerState
	ord      map[uint]int // outbound key -> acceptance order within its level
	nextOrd  int
	clientID string
	desc     string
	shape    string
	gen      int

	// damage bookkeeping of this generation
	unusable   map[uint]string // key -> kind of damage (altered or truncated records, stray junk)
	removed    map[uint]bool
	idDamage   string        // "", "unusable", "removed": state of the client-identifier record
	mustResume map[uint]bool // transfers that were live when the previous generation stopped
	spool      []string      // leftover file names for the FileSystem variant
	dmgKinds   []string
}

func (s *c16State) clone() *c16State {
	n := *s
	n.content = map[uint][]byte{}
	for k, v := range s.content {
		n.content[k] = v
	}
	n.ord = map[uint]int{}
	for k, v := range s.ord {
		n.ord[k] = v
	}
	n.broker = s.broker.Clone()
	n.unusable = map[uint]string{}
	n.removed = map[uint]bool{}
	n.mustResume = map[uint]bool{}
	n.spool = nil
	n.dmgKinds = nil
	return &n
}

func isOutboundKey(k uint) bool { return k >= 0x8000 && k <= 0xffff }
func isMarkerKey(k uint) bool   { return k&0x10000 != 0 }

func recordKind(k uint, raw []byte) string {
	switch {
	case k == 0:
		return "client-identifier"
	case isMarkerKey(k):
		return "inbound-marker"
	case isOutboundKey(k):
		if p := stripTrailer(raw); len(p) > 0 && p[0]>>4 == wire.PUBREL {
			return "PUBREL"
		}
		if k >= 0xc000 {
			return "PUBLISH2"
		}
		return "PUBLISH1"
	}
	return "stray"
}

// c16Base produces a Persistence by really running a client: n1 at-least-once
// publishes pending, nr exactly-once transfers at the PUBREL stage, n2 more at
// the PUBLISH stage behind them, nm inbound exactly-once markers.
func c16Base(c *run.Ctx, n1, nr, n2, nm int, wrap bool) *c16State {
	ep := newEpisode(c)
	w := ep.W
	defer w.Shutdown()
	ep.F.Off = true
	ep.Cfg.AtLeastOnceMax, ep.Cfg.ExactlyOnceMax = -1, -1
	w.DataCap = 256
	if err := ep.Init(); err != nil {
		c.Violate("init-failed", err.Error(), nil)
		return nil
	}
	d := ep.D
	d.StartReader()
	if wrap {
		for lvl := 1; lvl <= 2; lvl++ {
			n := 0x4000 - 1 - c.Rng.Intn(5)
			for i := 0; i < n; i++ {
				if p := d.Publish(lvl, false, 1); p.Err != nil {
					w.WaitUntil(sim.StepTimeout, d.AllClosed)
					if p = d.PublishPub(p); p.Err != nil {
						c.Inconclusive("prelude publish failed: " + p.Err.Error())
						d.CloseAndWait()
						return nil
					}
				}
			}
		}
		if !w.WaitUntil(4*sim.StepTimeout, d.AllClosed) {
			c.Inconclusive("prelude did not complete")
			c.Spoiled()
			return nil
		}
	}
	recs := 0
	w.Mu.Lock()
	w.Broker.HoldPubrel = true
	w.Broker.AckPolicy = func(b *sim.Broker, cn *sim.Conn, p *wire.Packet, reply []byte) string {
		switch reply[0] >> 4 {
		case wire.PUBACK, wire.PUBCOMP:
			return "hold"
		case wire.PUBREC:
			recs++
			if recs > nr {
				return "hold"
			}
		}
		return ""
	}
	w.Mu.Unlock()
	for i := 0; i < nm; i++ {
		w.Broker.Publish(fmt.Sprintf("in/2/%d", i+1), []byte("inbound"), 2, false)
		w.WaitIdle(sim.StepTimeout)
	}
	for i := 0; i < n1; i++ {
		d.Publish(1, i%3 == 1, []int{0, 3, 40, 200, 6000}[c.Rng.Intn(5)])
	}
	for i := 0; i < nr+n2; i++ {
		d.Publish(2, i%4 == 3, []int{0, 3, 40, 200, 6000}[c.Rng.Intn(5)])
		w.WaitIdle(sim.StepTimeout)
	}
	if !w.WaitIdle(sim.StepTimeout) {
		c.Inconclusive("base episode did not go idle")
		c.Spoiled()
		return nil
	}
	st := &c16State{ord: map[uint]int{}, clientID: "verif-client", unusable: map[uint]string{}, removed: map[uint]bool{}, mustResume: map[uint]bool{}}
	w.Mu.Lock()
	st.content = map[uint][]byte{}
	for k, v := range w.Store.CurrentLocked() {
		st.content[k] = v
	}
	st.broker = w.Broker.State.Clone()
	for i, op := range w.Store.Ops {
		if op.Op == "save" && !op.Err && isOutboundKey(op.Key) {
			if p := stripTrailer(op.Value); len(p) > 0 && p[0]>>4 == wire.PUBLISH {
				st.ord[op.Key] = i + 1
				st.nextOrd = i + 2
			}
		}
	}
	w.Mu.Unlock()
	if !d.CloseAndWait() {
		c.Spoiled()
	}
	// what the store holds must be what was asked for
	got := map[string]int{}
	for k, v := range st.content {
		got[recordKind(k, v)]++
	}
	if got["PUBLISH1"] != n1 || got["PUBREL"] != nr || got["PUBLISH2"] != n2 || got["inbound-marker"] != nm || got["client-identifier"] != 1 {
		c.Inconclusive(fmt.Sprintf("base store differs from the plan: %v, want n1=%d nr=%d n2=%d nm=%d", got, n1, nr, n2, nm))
		return nil
	}
	// the broker may have missed the PUBREC of some inbound messages
	for _, m := range st.broker.Out {
		if m.QoS == 2 && m.State == 1 && c.Rng.Intn(2) == 0 {
			m.State = 0
		}
	}
	st.desc = fmt.Sprintf("base n1=%d nr=%d n2=%d nm=%d wrap=%v", n1, nr, n2, nm, wrap)
	st.shape = fmt.Sprintf("n1=%d|nr=%d|n2=%d|nm=%d|wrap=%v", min(n1, 3), min(nr, 2), min(n2, 3), min(nm, 2), wrap)
	return st
}

// c16Damage is one damage operation.
type c16Damage struct {
	Key uint
	Op  string // alter, trunc, remove, stray, spool, twin
	Pos int
	Val byte
}

func (dm c16Damage) String() string {
	switch dm.Op {
	case "alter":
		return fmt.Sprintf("%#x:alter@%d^%#02x", dm.Key, dm.Pos, dm.Val)
	case "trunc":
		return fmt.Sprintf("%#x:trunc→%d", dm.Key, dm.Pos)
	}
	return fmt.Sprintf("%#x:%s", dm.Key, dm.Op)
}

// apply returns the damaged state.
func (s *c16State) apply(dmgs []c16Damage) *c16State {
	n := s.clone()
	var descs []string
	for _, dm := range dmgs {
		orig, present := n.content[dm.Key]
		kind := recordKind(dm.Key, orig)
		switch dm.Op {
		case "alter":
			if !present || len(orig) == 0 {
				continue
			}
			v := append([]byte{}, orig...)
			if dm.Val == 0 {
				dm.Val = 1
			}
			v[dm.Pos%len(v)] ^= dm.Val
			n.content[dm.Key] = v
		case "trunc":
			if !present {
				continue
			}
			l := dm.Pos
			if l >= len(orig) {
				l = len(orig) - 1
			}
			if l < 0 {
				l = 0
			}
			n.content[dm.Key] = append([]byte{}, orig[:l]...)
		case "remove":
			if !present {
				continue
			}
			delete(n.content, dm.Key)
			n.removed[dm.Key] = true
			if dm.Key == 0 {
				n.idDamage = "removed"
			}
			n.dmgKinds = append(n.dmgKinds, kind+":remove")
			descs = append(descs, dm.String())
			continue
		case "stray":
			if present {
				continue
			}
			junk := make([]byte, dm.Pos%40)
			for i := range junk {
				junk[i] = byte(i*31) + dm.Val
			}
			n.content[dm.Key] = junk
			kind = "stray"
		case "spool":
			n.spool = append(n.spool, fmt.Sprintf("%05x.spool", dm.Key))
			n.dmgKinds = append(n.dmgKinds, "spool-leftover")
			descs = append(descs, dm.String())
			continue
		case "twin":
			// a foreign file whose name reads as the record's key to a lenient
			// parser: the record's name in upper case
			if name := fmt.Sprintf("%05x", dm.Key); strings.ToUpper(name) != name {
				n.spool = append(n.spool, strings.ToUpper(name))
				n.dmgKinds = append(n.dmgKinds, "upper-case-twin")
				descs = append(descs, dm.String())
			}
			continue
		}
		delete(n.removed, dm.Key)
		n.unusable[dm.Key] = dm.Op
		if dm.Key == 0 {
			n.idDamage = "unusable"
		}
		n.dmgKinds = append(n.dmgKinds, kind+":"+dm.Op)
		descs = append(descs, dm.String())
	}
	sort.Strings(n.dmgKinds)
	n.desc = s.desc + " damage[" + strings.Join(descs, " ") + "]"
	return n
}

var hexRE = regexp.MustCompile(`0x[0-9a-fA-F]+`)
var rangeRE = regexp.MustCompile(`(0x[0-9a-fA-F]+)\s*[–—-]\s*(0x[0-9a-fA-F]+)`)

// warnCover tells which record keys the warnings speak about.
type warnCover struct {
	singles map[uint]bool
	ranges  [][2]uint
	tokens  int
	unnamed int // warnings which name no record at all
}

func parseWarnings(warn []error) *warnCover {
	wc := &warnCover{singles: map[uint]bool{}}
	for _, e := range warn {
		s := e.Error()
		for _, m := range rangeRE.FindAllStringSubmatch(s, -1) {
			a, _ := strconv.ParseUint(m[1][2:], 16, 32)
			b, _ := strconv.ParseUint(m[2][2:], 16, 32)
			wc.ranges = append(wc.ranges, [2]uint{uint(a), uint(b)})
		}
		named := false
		for _, t := range hexRE.FindAllString(s, -1) {
			v, _ := strconv.ParseUint(t[2:], 16, 32)
			wc.singles[uint(v)] = true
			wc.tokens++
			named = true
		}
		if !named {
			wc.unnamed++
		}
	}
	return wc
}

func (wc *warnCover) covers(k uint) bool {
	if wc.singles[k] {
		return true
	}
	for _, r := range wc.ranges {
		a, b := r[0], r[1]
		if isOutboundKey(a) && isOutboundKey(b) && isOutboundKey(k) && a&^0x3fff == k&^0x3fff && b&^0x3fff == k&^0x3fff {
			if (k-a)&0x3fff <= (b-a)&0x3fff {
				return true
			}
		} else if a <= k && k <= b {
			return true
		}
	}
	return false
}

type c16Stats struct {
	adoptions, connected, gen2, fs, abandonedRuns, markerRuns int
}

// c16Adopt adopts a (damaged) state and applies the oracle. When stopAgain is
// set the adopted client is stopped with transfers pending and the state for
// the next generation is returned.
func c16Adopt(c *run.Ctx, st *c16State, stopAgain, useFS bool, stats *c16Stats) (next *c16State) {
	stats.adoptions++
	w := sim.NewWorld(c.Rng.Int63())
	defer w.Shutdown()
	sim.InstallHooks(w)
	w.RequireDeadlines = true
	w.DataCap = 1 << 12
	var dir string
	if useFS {
		var e error
		dir, e = os.MkdirTemp("", "verif-c16-")
		if e != nil {
			useFS = false
		} else {
			defer os.RemoveAll(dir)
			fs := mqtt.FileSystem(dir)
			for k, v := range st.content {
				if e := fs.Save(k, [][]byte{v}); e != nil {
					c.Inconclusive("cannot plant the FileSystem store: " + e.Error())
					return nil
				}
			}
			// leftovers of interrupted saves, longer than what gets saved next under
			// the same names: under the records at hand and under the identifiers
			// that come next
			junk := bytes.Repeat([]byte("interrupted save "), 40)
			for _, name := range st.spool {
				os.WriteFile(filepath.Join(dir, name), junk, 0o600)
			}
			if len(st.spool) != 0 {
				for _, space := range []uint{0x8000, 0xc000} {
					top, any := uint(0), false
					for k := range st.content {
						if k&^0x3fff == space && (!any || (k-top)&0x3fff < 0x2000) {
							top, any = k, true
						}
					}
					if !any {
						top = space | 0x3fff
					}
					for i := uint(1); i <= 4; i++ {
						os.WriteFile(filepath.Join(dir, fmt.Sprintf("%05x.spool", space|(top+i)&0x3fff)), junk, 0o600)
					}
				}
				for k := range st.content {
					if k >= 0xc000 && k <= 0xffff {
						os.WriteFile(filepath.Join(dir, fmt.Sprintf("%05x.spool", k)), junk, 0o600)
					}
				}
			}
			if len(st.spool) != 0 {
				os.WriteFile(filepath.Join(dir, "README"), []byte("x"), 0o600)
				os.WriteFile(filepath.Join(dir, "0000g"), []byte("x"), 0o600)
				os.WriteFile(filepath.Join(dir, "123456"), []byte("x"), 0o600)
				// a directory whose name reads as a key nobody uses
				os.Mkdir(filepath.Join(dir, "1abcd"), 0o700)
				os.Mkdir(filepath.Join(dir, "07fff"), 0o700)
				// other entries that are no files: a link to a directory, a named pipe
				os.Symlink(dir, filepath.Join(dir, "1abce"))
				syscall.Mkfifo(filepath.Join(dir, "07ffe"), 0o600)
			}
			w.Store.Inner = fs
			stats.fs++
		}
	}
	w.Store.Plant(st.content)
	hold := false
	w.Mu.Lock()
	w.Broker.State = st.broker.Clone()
	if stopAgain && c.Rng.Intn(2) == 0 {
		// the broker does not get to its PUBREL before the next stop: reception
		// markers, restored ones too, are still there for the next adoption
		w.Broker.HoldPubrel = true
	}
	w.Broker.Connack = func(b *sim.Broker, cn *sim.Conn, p *wire.Packet) []byte {
		if p.Connect.ClientID == "" && !p.Connect.CleanSession {
			return wire.Connack(false, 2) // [MQTT-3.1.3-8]
		}
		return wire.Connack(b.State.Session && !p.Connect.CleanSession, 0)
	}
	w.Broker.AckPolicy = func(b *sim.Broker, cn *sim.Conn, p *wire.Packet, reply []byte) string {
		if hold && w.Rng.Intn(2) == 0 {
			return "hold"
		}
		return ""
	}
	w.ReadPlan = func(cn *sim.Conn, avail int) sim.ReadDecision {
		if avail == 0 {
			return sim.ReadDecision{Then: "block"}
		}
		if avail > 1 && w.Rng.Intn(4) == 0 {
			return sim.ReadDecision{Deliver: 1 + w.Rng.Intn(avail-1)}
		}
		return sim.ReadDecision{Deliver: -1}
	}
	w.Mu.Unlock()

	dmgSig := strings.Join(st.dmgKinds, "+")
	if dmgSig == "" {
		dmgSig = "none"
	}
	detail := func(extra map[string]any) map[string]any {
		m := map[string]any{"state": st.desc, "generation": st.gen, "damage": st.dmgKinds, "store_keys": fmt.Sprintf("%x", sim.Keys(st.content)), "file_system": useFS, "trace_tail": w.TraceTail(50)}
		for k, v := range extra {
			m[k] = v
		}
		return m
	}

	cfg := mqtt.Config{Dialer: w.Dialer(), PauseTimeout: time.Hour, ReconnectWaitMin: time.Microsecond, ReconnectWaitMax: time.Microsecond, AtLeastOnceMax: -1, ExactlyOnceMax: -1}
	var cl *mqtt.Client
	var warn []error
	var fatal error
	adopted := make(chan any, 1)
	go func() {
		defer func() { adopted <- recover() }()
		cl, warn, fatal = mqtt.AdoptSession(w.Store, &cfg)
	}()
	var panicked any
	select {
	case panicked = <-adopted:
	case <-time.After(sim.StepTimeout):
		s1 := strings.Join(sim.MqttStacks(), "\n")
		starved := sim.Starved(1500 * time.Millisecond)
		s2 := strings.Join(sim.MqttStacks(), "\n")
		select {
		case panicked = <-adopted:
		default:
			if !starved && s1 == s2 && s1 != "" {
				c.Violate("adopt-blocks/"+dmgSig, "AdoptSession neither returns nor fails on a damaged Persistence", map[string]any{"stacks": s2, "damage": st.desc})
			} else {
				c.Inconclusive("AdoptSession slow")
			}
			c.Spoiled()
			if dir != "" {
				// whoever sits in a read of the named pipe holds the world lock: let go
				if f, e := os.OpenFile(filepath.Join(dir, "07ffe"), os.O_WRONLY|syscall.O_NONBLOCK, 0); e == nil {
					f.Close()
				}
				<-adopted
			}
			return nil
		}
	}
	if panicked != nil {
		c.Violate("adopt-panics", fmt.Sprintf("AdoptSession panicked on a damaged Persistence: %v", panicked), detail(nil))
		return nil
	}
	if fatal != nil {
		c.Violate("adopt-fails/"+dmgSig, fmt.Sprintf("AdoptSession failed on a damaged Persistence: %v", fatal), detail(nil))
		return nil
	}
	var warnTexts []string
	for _, e := range warn {
		warnTexts = append(warnTexts, e.Error())
	}
	wc := parseWarnings(warn)

	d := sim.NewDriver(w, cl, nil, st.gen+1)
	d.MaxErrs = 5
	d.StartReader()
	closeOut := func() {
		if !d.CloseAndWait() {
			c.Spoiled()
		}
	}

	readErrs := func() (errs []string) {
		for _, r := range d.ReadsSnapshot() {
			if r.Err != nil && !r.Big && !errors.Is(r.Err, mqtt.ErrClosed) {
				errs = append(errs, r.Err.Error())
			}
		}
		return
	}
	// the first connection completes its resend, or connecting keeps failing
	ok := w.WaitUntil(sim.StepTimeout, func() bool { return w.PointCountLocked("connect.resent") > 0 || d.ReadCount() >= 4 })
	w.Mu.Lock()
	resent := w.PointCountLocked("connect.resent") > 0
	w.Mu.Unlock()
	if !resent {
		errs := readErrs()
		switch {
		case len(errs) >= 3:
			sig := "connect-fails/" + dmgSig
			if st.idDamage != "" {
				sig = "connect-fails/client-identifier-" + st.idDamage
			}
			c.Violate(sig, fmt.Sprintf("the adopted client cannot connect on a healthy network: %s", errs[len(errs)-1]), detail(map[string]any{"read_errors": errs, "warnings": warnTexts}))
		case !ok:
			wedged, report := w.Diagnose(1500 * time.Millisecond)
			if wedged {
				c.Violate("adopted-client-stuck/"+dmgSig, "the adopted client neither connects nor fails", detail(map[string]any{"report": report}))
			} else {
				c.Inconclusive("adopted client slow to connect")
			}
			c.Spoiled()
		default:
			c.Inconclusive("read loop ended before a connection was set up: " + strings.Join(errs, "; "))
		}
		closeOut()
		return nil
	}
	stats.connected++

	// what the first connection carries up to the end of the resend
	w.Mu.Lock()
	conn := w.Conns[0]
	endOff := len(conn.Out)
	for _, e := range w.Trace {
		if e.Kind == "point" && e.Note == "connect.resent" && e.Conn == 1 {
			endOff = e.Off
			break
		}
	}
	pk, _, perr := wire.ParseStream(conn.Out[:endOff], true)
	w.Mu.Unlock()
	if perr != nil || len(pk) == 0 || pk[0].Type != wire.CONNECT {
		c.Violate("malformed-outbound-stream/"+dmgSig, fmt.Sprintf("first connection of the adopted client: %v", perr), detail(nil))
		closeOut()
		return nil
	}
	if id := pk[0].Connect.ClientID; id != st.clientID {
		c.Violate("connects-under-other-identity/client-identifier-"+st.idDamage, fmt.Sprintf("CONNECT carries client identifier %q, the session belongs to %q", id, st.clientID), detail(nil))
	}
	resumed := map[uint]bool{}
	var lastOrd [3]int
	var lastKey [3]uint
	var written []string
	for _, p := range pk[1:] {
		written = append(written, p.String())
		if p.Type != wire.PUBLISH && p.Type != wire.PUBREL {
			c.Violate("foreign-packet-in-resend/"+dmgSig, fmt.Sprintf("the adopted client wrote %s before the end of its resend", p), detail(nil))
			continue
		}
		key := uint(p.ID)
		raw, present := st.content[key]
		_, bad := st.unusable[key]
		want := append([]byte{}, stripTrailer(raw)...)
		have := append([]byte{}, p.Raw...)
		if p.Type == wire.PUBLISH && len(want) > 0 {
			want[0] &^= 8
			have[0] &^= 8
		}
		if !present || bad || !bytes.Equal(want, have) {
			c.Violate("transmits-what-was-not-saved/"+dmgSig, fmt.Sprintf("the adopted client wrote %s, which is not an undamaged record of the Persistence (present=%v damaged=%v)", p, present, bad), detail(map[string]any{"written": written}))
			continue
		}
		if resumed[key] {
			c.Violate("resent-twice/"+dmgSig, fmt.Sprintf("record %#x is transmitted twice in one resend", key), detail(map[string]any{"written": written}))
		}
		resumed[key] = true
		lvl := 1
		if key >= 0xc000 {
			lvl = 2
		}
		if o := st.ord[key]; o != 0 {
			if o < lastOrd[lvl] {
				c.Violate("resend-out-of-order/"+dmgSig, fmt.Sprintf("record %#x is transmitted after %#x although it was accepted before", key, lastKey[lvl]), detail(map[string]any{"written": written}))
			}
			lastOrd[lvl], lastKey[lvl] = o, key
		}
	}

	// warnings cover every unusable and every abandoned record
	var abandoned, unreported []uint
	for _, k := range sim.Keys(st.content) {
		_, bad := st.unusable[k]
		switch {
		case bad && k != 0:
			if !wc.covers(k) {
				unreported = append(unreported, k)
			}
		case isOutboundKey(k) && !resumed[k]:
			abandoned = append(abandoned, k)
			if !wc.covers(k) {
				unreported = append(unreported, k)
			}
		}
	}
	if len(abandoned) != 0 {
		stats.abandonedRuns++
	}
	if len(unreported) != 0 {
		if wc.unnamed != 0 {
			// A warning is an error value without structure: the record numbers
			// in its text are the only way to tell what it speaks about. One
			// which names no record may speak about any, so nothing can be held
			// against the report when such a warning is present.
			c.Count("warnings_without_record_names", 1)
		} else {
			var kinds []string
			seen := map[string]bool{}
			for _, k := range unreported {
				kd := recordKind(k, st.content[k])
				if _, bad := st.unusable[k]; bad {
					kd += "-unusable"
				} else {
					kd += "-abandoned"
				}
				if !seen[kd] {
					seen[kd] = true
					kinds = append(kinds, kd)
				}
			}
			sort.Strings(kinds)
			c.Violate("record-not-reported/"+strings.Join(kinds, "+"), fmt.Sprintf("records %x are unusable or abandoned yet no warning of AdoptSession covers them", unreported), detail(map[string]any{"warnings": warnTexts, "abandoned": fmt.Sprintf("%x", abandoned), "written": written}))
		}
	}
	// transfers that were live at the previous stop are all resumed
	var dropped []uint
	for k := range st.mustResume {
		if !resumed[k] {
			dropped = append(dropped, k)
		}
	}
	if len(dropped) != 0 {
		sort.Slice(dropped, func(i, j int) bool { return dropped[i] < dropped[j] })
		c.Violate("live-transfer-dropped-on-next-adoption", fmt.Sprintf("transfers %x were resumed or accepted by the previous client and pending at its stop, yet the next AdoptSession does not resume them", dropped), detail(map[string]any{"warnings": warnTexts, "written": written}))
	}

	// new publishes continue without collision
	w.Mu.Lock()
	hold = stopAgain
	w.Mu.Unlock()
	newKeys := map[uint]bool{}
	nNew := 1 + c.Rng.Intn(3)
	opsBefore := func() int { w.Mu.Lock(); defer w.Mu.Unlock(); return len(w.Store.Ops) }()
	var newPubs []*sim.Pub
	for i := 0; i < nNew; i++ {
		p := d.Publish(1+c.Rng.Intn(2), false, c.Rng.Intn(30))
		if p.Err != nil {
			c.Violate("publish-refused-after-adopt/"+dmgSig, fmt.Sprintf("publish on the adopted client failed: %v", p.Err), detail(nil))
			continue
		}
		newPubs = append(newPubs, p)
	}
	ordOf := map[uint]int{}
	w.Mu.Lock()
	for _, op := range w.Store.Ops[opsBefore:] {
		if op.Op != "save" || op.Err || !isOutboundKey(op.Key) {
			continue
		}
		pkt, e := wire.Decode(stripTrailer(op.Value), true)
		if e != nil || pkt.Type != wire.PUBLISH || markerOfTopic(pkt.Topic) == 0 {
			continue
		}
		if _, isNew := ordOf[op.Key]; isNew {
			continue
		}
		if resumed[op.Key] {
			// still pending unless its record was removed before this save
			pending := true
			for _, o2 := range w.Store.Ops {
				if o2.Op == "delete" && !o2.Err && o2.Key == op.Key && o2.RetSeq < op.CallSeq {
					pending = false
				}
			}
			if pending {
				c.Violate("identifier-collision-after-adopt/"+dmgSig, fmt.Sprintf("a new publish got identifier %#x, which a resumed transfer still holds", op.Key), detail(map[string]any{"written": written}))
			}
		}
		newKeys[op.Key] = true
		ordOf[op.Key] = st.nextOrd + len(ordOf)
	}
	w.Mu.Unlock()

	// reception keeps working
	probeTopic := fmt.Sprintf("in/1/%d", 9000+st.gen)
	w.Broker.Publish(probeTopic, []byte("probe"), 1, false)
	markerDamage := ""
	for k, op := range st.unusable {
		if isMarkerKey(k) {
			markerDamage = "inbound-marker:" + op
			stats.markerRuns++
		}
	}
	gotProbe := func() bool {
		for _, r := range d.ReadsSnapshot() {
			if r.Topic == probeTopic {
				return true
			}
		}
		return false
	}
	recvDone := func() bool {
		if !gotProbe() {
			return false
		}
		for _, m := range w.Broker.State.Out {
			if w.Broker.HoldPubrel && m.State == 1 {
				continue // the broker withholds its PUBREL on purpose
			}
			return false
		}
		return true
	}
	outboundDone := func() bool {
		for k := range w.Store.CurrentLocked() {
			if resumed[k] || newKeys[k] {
				return false
			}
		}
		return d.AllClosed()
	}
	settle := func(cond func() bool) string {
		if w.WaitUntil(sim.StepTimeout, cond) {
			return ""
		}
		if d.Spun {
			return "spinning"
		}
		for i := 0; i < 3; i++ {
			wedged, _ := w.Diagnose(1500 * time.Millisecond)
			if w.WaitUntil(time.Millisecond, cond) {
				return ""
			}
			if wedged {
				return "wedged"
			}
			if d.Spun {
				return "spinning"
			}
		}
		return "slow"
	}
	sigDamage := dmgSig
	if markerDamage != "" {
		sigDamage = markerDamage
	}
	switch settle(func() bool { return recvDone() || d.Spun }) {
	case "":
		if d.Spun || !func() bool { w.Mu.Lock(); defer w.Mu.Unlock(); return recvDone() }() {
			errs := readErrs()
			c.Violate("cannot-receive/"+sigDamage, fmt.Sprintf("the adopted client keeps failing instead of receiving (%d consecutive ReadSlices errors, last: %s)", len(errs), last(errs)), detail(map[string]any{"read_errors": errs, "probe_received": gotProbe(), "warnings": warnTexts}))
			closeOut()
			return nil
		}
	case "wedged", "spinning":
		errs := readErrs()
		w.Mu.Lock()
		pend := len(w.Broker.State.Out)
		w.Mu.Unlock()
		c.Violate("cannot-receive/"+sigDamage, fmt.Sprintf("reception does not go on: probe message received=%v, %d inbound handshakes left open at the broker, last ReadSlices error: %s", gotProbe(), pend, last(errs)), detail(map[string]any{"read_errors": errs, "warnings": warnTexts}))
		c.Spoiled()
		closeOut()
		return nil
	default:
		c.Inconclusive("reception slow after adoption")
		c.Spoiled()
		closeOut()
		return nil
	}
	if errs := readErrs(); len(errs) != 0 {
		c.Violate("read-error-on-healthy-connection/"+sigDamage, fmt.Sprintf("ReadSlices reported %q although network and broker are healthy", errs[0]), detail(map[string]any{"read_errors": errs, "warnings": warnTexts}))
	}

	if stopAgain {
		// stop with transfers pending; the next generation continues
		w.WaitIdle(sim.StepTimeout)
		nx := &c16State{ord: map[uint]int{}, clientID: st.clientID, unusable: map[uint]string{}, removed: map[uint]bool{}, mustResume: map[uint]bool{}, gen: st.gen + 1, shape: st.shape}
		w.Mu.Lock()
		nx.content = map[uint][]byte{}
		for k, v := range w.Store.CurrentLocked() {
			nx.content[k] = v
			if resumed[k] || newKeys[k] {
				nx.mustResume[k] = true
			}
		}
		nx.broker = w.Broker.State.Clone()
		for k, o := range st.ord {
			nx.ord[k] = o
		}
		for k, o := range ordOf {
			nx.ord[k] = o
		}
		nx.nextOrd = st.nextOrd + len(ordOf) + 1
		w.Mu.Unlock()
		nx.desc = st.desc + fmt.Sprintf(" → stop with %d live transfers", len(nx.mustResume))
		nx.dmgKinds = append([]string{"second-generation"}, st.dmgKinds...)
		closeOut()
		return nx
	}

	// completion of everything resumed and new
	w.Broker.ReleaseHeld()
	switch settle(outboundDone) {
	case "":
	case "wedged", "spinning":
		var left []uint
		w.Mu.Lock()
		for k := range w.Store.CurrentLocked() {
			if resumed[k] || newKeys[k] {
				left = append(left, k)
			}
		}
		w.Mu.Unlock()
		sort.Slice(left, func(i, j int) bool { return left[i] < left[j] })
		c.Violate("resumed-transfers-never-complete/"+dmgSig, fmt.Sprintf("the adopted client went idle with transfers %x incomplete", left), detail(map[string]any{"read_errors": readErrs(), "written": written}))
		c.Spoiled()
	default:
		c.Inconclusive("completion slow after adoption")
		c.Spoiled()
	}
	closeOut()
	return nil
}

func last(s []string) string {
	if len(s) == 0 {
		return "none"
	}
	return s[len(s)-1]
}

// c16Variants lists the damage sets for a base state: every single record with
// every operator class, then PRNG-drawn subsets of up to k records.
func c16Variants(c *run.Ctx, st *c16State, k, extra int) [][]c16Damage {
	keys := sim.Keys(st.content)
	one := func(key uint, op int) c16Damage {
		l := len(st.content[key])
		switch op {
		case 0:
			return c16Damage{Key: key, Op: "alter", Pos: c.Rng.Intn(max(l, 1)), Val: byte(1 + c.Rng.Intn(255))}
		case 1:
			return c16Damage{Key: key, Op: "trunc", Pos: []int{0, 1, 11, 12, l - 1, l / 2}[c.Rng.Intn(6)]}
		default:
			return c16Damage{Key: key, Op: "remove"}
		}
	}
	var out [][]c16Damage
	for _, key := range keys {
		for op := 0; op < 3; op++ {
			out = append(out, []c16Damage{one(key, op)})
		}
		if l := len(st.content[key]); l > 4200 {
			// a long record: damage far behind its head as well
			out = append(out, []c16Damage{{Key: key, Op: "alter", Pos: l - 13 - c.Rng.Intn(l-4200), Val: byte(1 + c.Rng.Intn(255))}})
		}
	}
	strayKeys := []uint{1, 0x3fff, 0x4000, 0x6001, 0x7fff}
	out = append(out, []c16Damage{{Key: strayKeys[c.Rng.Intn(len(strayKeys))], Op: "stray", Pos: c.Rng.Intn(40), Val: byte(c.Rng.Intn(256))}})
	var lettered []uint
	for _, key := range keys {
		if name := fmt.Sprintf("%05x", key); strings.ToUpper(name) != name {
			lettered = append(lettered, key)
		}
	}
	if len(lettered) != 0 {
		out = append(out, []c16Damage{{Key: lettered[c.Rng.Intn(len(lettered))], Op: "twin"}})
	}
	for i := 0; i < extra; i++ {
		n := 2 + c.Rng.Intn(max(k-1, 1))
		var set []c16Damage
		used := map[uint]bool{}
		for len(set) < n && len(used) < len(keys) {
			key := keys[c.Rng.Intn(len(keys))]
			if used[key] {
				continue
			}
			used[key] = true
			set = append(set, one(key, c.Rng.Intn(3)))
		}
		switch c.Rng.Intn(5) {
		case 0:
			set = append(set, c16Damage{Key: strayKeys[c.Rng.Intn(len(strayKeys))], Op: "stray", Pos: c.Rng.Intn(40), Val: byte(c.Rng.Intn(256))})
		case 1:
			set = append(set, c16Damage{Key: keys[c.Rng.Intn(len(keys))], Op: "spool"})
		case 2:
			set = append(set, c16Damage{Key: keys[c.Rng.Intn(len(keys))], Op: "twin"})
		}
		out = append(out, set)
	}
	return out
}

func init() {
	run.Register(&run.Prop{
		ID:    "C16",
		Level: "fault_enumeration",
		Cases: func(tier string) int {
			if tier == "thorough" {
				return 1600
			}
			return 320
		},
		ChunkSize: 4,
		Rule:      "each case produces a Persistence by really running a client against the reference broker (0-5 at-least-once PUBLISH pending, 0-3 exactly-once transfers at the PUBREL stage, 0-4 behind them at the PUBLISH stage, 0-2 inbound exactly-once markers whose PUBREC the broker got or missed; 1 in 8 with nothing outbound at all, markers only; 1 in 8 positioned at the 14-bit identifier wrap by completing 16,38x publishes first) and then damages it: EVERY single record x {one byte altered, truncated (0, 1, 11, 12, half, all but one byte), removed}, a stray junk entry under an unused key, and PRNG-drawn subsets of up to k records (quick k=2, thorough k=3) with strays and, on mqtt.FileSystem (1 in 5), spool leftovers (longer than what gets saved next, under the records at hand and under the identifiers that come next) and foreign files. Each damaged store is adopted and run against the broker state of the same instant; a third of the runs are stopped again with transfers pending and adopted a second time. Oracle: no panic, no fatal; the client connects (as the session's owner); the packets between CONNECT and the end of the resend are byte-equal to undamaged stored records, once each, in acceptance order per level; every unusable or abandoned (valid but not resumed) record is covered by a warning (record numbers and ranges parsed from the warning texts); new publishes are accepted on identifiers no resumed transfer holds; a probe message and every pending inbound handshake get through (no ReadSlices error on the healthy connection); everything resumed or new completes (records removed, exchanges closed) or, after a second stop, is resumed by the next AdoptSession. Non-trivial: >= 1 record damaged in a store of >= 2 records; distinct by base shape, generation and the multiset of (record kind, operator).",
		Assumptions: []string{
			"no record is forged with a valid checksum; truncations keep a prefix of the original bytes",
			"the broker state is that of the instant of the stop; a conforming broker rejects an empty client identifier without clean session [MQTT-3.1.3-8]",
			"warning coverage is read from the record numbers (0x…) and ranges (0x…–0x…) in the warning texts; when the texts name no record only their presence is held against them",
		},
		Run: func(c *run.Ctx) {
			n1, nr, n2, nm := c.Rng.Intn(6), c.Rng.Intn(4), c.Rng.Intn(5), c.Rng.Intn(3)
			if n1+nr+n2 < 2 {
				n1 += 2
			}
			if c.Case%8 == 3 {
				// nothing outbound pending: reception markers only
				n1, nr, n2, nm = 0, 0, 0, 1+c.Rng.Intn(2)
			}
			wrap := c.Case%8 == 5
			base := c16Base(c, n1, nr, n2, nm, wrap)
			if base == nil {
				return
			}
			k, extra := 2, 10
			if c.Tier == "thorough" {
				k, extra = 3, 30
			}
			stats := &c16Stats{}
			// the undamaged state must pass as well
			variants := append([][]c16Damage{nil}, c16Variants(c, base, k, extra)...)
			shapes := map[string]bool{}
			for _, set := range variants {
				st := base.apply(set)
				useFS := c.Rng.Intn(5) == 0
				if len(st.spool) != 0 {
					useFS = true
				}
				again := c.Rng.Intn(3) == 0 || len(st.spool) != 0
				nx := c16Adopt(c, st, again, useFS, stats)
				for g := 0; nx != nil && g < 2; g++ {
					stats.gen2++
					shapes[fmt.Sprintf("gen%d|%s|%s", nx.gen+1, base.shape, strings.Join(st.dmgKinds, "+"))] = true
					nx = c16Adopt(c, nx, g == 0 && c.Rng.Intn(3) == 0, useFS, stats)
				}
				if len(set) != 0 && len(st.dmgKinds) != 0 {
					shapes[fmt.Sprintf("gen1|%s|%s", base.shape, strings.Join(st.dmgKinds, "+"))] = true
				}
			}
			for s := range shapes {
				c.Trigger(s)
			}
			c.Count("damaged_stores", len(variants)-1)
			c.Count("adoptions", stats.adoptions)
			c.Count("adoptions_connected", stats.connected)
			c.Count("later_generation_adoptions", stats.gen2)
			c.Count("file_system_adoptions", stats.fs)
			c.Count("adoptions_with_abandoned_records", stats.abandonedRuns)
			c.Count("adoptions_with_damaged_marker", stats.markerRuns)
			c.Sample(map[string]any{"base": base.desc, "damaged_stores": len(variants) - 1, "adoptions": stats.adoptions, "example_damage": fmt.Sprint(variants[min(3, len(variants)-1)])})
		},
	})
}
