package props

import (
	"bufio"
	"bytes"
	"crypto/sha256"
	"encoding/binary"
	"encoding/json"
	"fmt"
	"net"
	"os"
	"os/exec"
	"path/filepath"
	"regexp"
	"sort"
	"strconv"
	"strings"
	"sync"
	"sync/atomic"
	"time"

	"github.com/anishathalye/porcupine"
	"github.com/pascaldekloe/mqtt"

	"verif/fsops"
	"verif/run"
)

// ---- strace log ----

// sysCall is one system call of the traced process.
type sysCall struct {
	Pid      int
	Name     string
	Args     string
	Ret      string // "" while unfinished (killed inside)
	Finished bool
}

var (
	reFull    = regexp.MustCompile(`^(\d+)\s+(\w+)\((.*)\)\s+= (-?\d+|\?|0x[0-9a-f]+)(.*)$`)
	reUnfin   = regexp.MustCompile(`^(\d+)\s+(\w+)\((.*) <unfinished \.\.\.>$`)
	reResumed = regexp.MustCompile(`^(\d+)\s+<\.\.\. (\w+) resumed>(.*)\)\s+= (-?\d+|\?|0x[0-9a-f]+)(.*)$`)
)

func parseStrace(path string) ([]*sysCall, error) {
	f, err := os.Open(path)
	if err != nil {
		return nil, err
	}
	defer f.Close()
	var out []*sysCall
	open := map[int]*sysCall{}
	sc := bufio.NewScanner(f)
	sc.Buffer(make([]byte, 1<<20), 1<<24)
	for sc.Scan() {
		line := sc.Text()
		if m := reFull.FindStringSubmatch(line); m != nil {
			pid, _ := strconv.Atoi(m[1])
			out = append(out, &sysCall{Pid: pid, Name: m[2], Args: m[3], Ret: m[4] + m[5], Finished: true})
			continue
		}
		if m := reUnfin.FindStringSubmatch(line); m != nil {
			pid, _ := strconv.Atoi(m[1])
			c := &sysCall{Pid: pid, Name: m[2], Args: m[3]}
			out = append(out, c)
			open[pid] = c
			continue
		}
		if m := reResumed.FindStringSubmatch(line); m != nil {
			pid, _ := strconv.Atoi(m[1])
			if c := open[pid]; c != nil && c.Name == m[2] {
				c.Args += m[3]
				c.Ret = m[4] + m[5]
				c.Finished = true
				delete(open, pid)
			}
		}
	}
	return out, sc.Err()
}

func (c *sysCall) ok() bool { return c.Finished && !strings.HasPrefix(c.Ret, "-1") }

// firstString returns the n-th quoted argument.
func nthString(args string, n int) string {
	for i := 0; i <= n; i++ {
		a := strings.IndexByte(args, '"')
		if a < 0 {
			return ""
		}
		b := strings.IndexByte(args[a+1:], '"')
		if b < 0 {
			return ""
		}
		if i == n {
			return args[a+1 : a+1+b]
		}
		args = args[a+b+2:]
	}
	return ""
}

func firstInt(args string) int {
	end := 0
	for end < len(args) && (args[end] >= '0' && args[end] <= '9') {
		end++
	}
	n, err := strconv.Atoi(args[:end])
	if err != nil {
		return -1
	}
	return n
}

var straceSet = "openat,open,creat,write,writev,pwrite64,pwritev,pwritev2,fsync,fdatasync,sync_file_range,syncfs,sync,close,rename,renameat,renameat2,unlink,unlinkat,link,linkat,symlink,symlinkat,truncate,ftruncate,dup,dup2,dup3,copy_file_range,sendfile"

var writeCalls = map[string]bool{"write": true, "writev": true, "pwrite64": true, "pwritev": true, "pwritev2": true, "copy_file_range": true, "sendfile": true, "ftruncate": true}
var renameCalls = map[string]bool{"rename": true, "renameat": true, "renameat2": true, "link": true, "linkat": true}

// ---- one traced run of the helper ----

type fsRun struct {
	stdout   string
	calls    []*sysCall
	worker   int     // thread that runs the script
	opCalls  [][]int // indices into calls per operation, markers excluded
	begins   []int   // index of the BEGIN marker write per operation
	ends     []int   // index of the END marker write per operation (or -1)
	endText  []string
	killed   bool
	exitCode int
}

func fskillBin() string { return filepath.Join(run.Root, "bin", "fskill") }

func runFskill(workdir, dir, script string, extra []string, inject string) (*fsRun, error) {
	logPath := filepath.Join(workdir, "strace.log")
	os.Remove(logPath)
	args := []string{"-f", "-o", logPath, "-e", "trace=" + straceSet}
	if inject != "" {
		args = append(args, "-e", "inject="+inject)
	}
	args = append(args, fskillBin(), "run", dir, script)
	args = append(args, extra...)
	cmd := exec.Command("strace", args...)
	cmd.Env = append(os.Environ(), "GOMAXPROCS=1", "GOTRACEBACK=none")
	var so, se bytes.Buffer
	cmd.Stdout = &so
	cmd.Stderr = &se
	done := make(chan error, 1)
	if err := cmd.Start(); err != nil {
		return nil, err
	}
	go func() { done <- cmd.Wait() }()
	var err error
	select {
	case err = <-done:
	case <-time.After(60 * time.Second):
		cmd.Process.Kill()
		<-done
		return nil, fmt.Errorf("helper run exceeded the watchdog")
	}
	r := &fsRun{stdout: so.String()}
	if err != nil {
		if ee, ok := err.(*exec.ExitError); ok {
			r.exitCode = ee.ExitCode()
			if ee.ExitCode() == -1 || ee.ExitCode() == 137 {
				r.killed = true
			}
		} else {
			return nil, err
		}
	}
	r.calls, err = parseStrace(logPath)
	if err != nil {
		return nil, err
	}
	// the worker is the thread that writes the markers
	cur := -1
	for i, c := range r.calls {
		if c.Name != "write" || firstInt(c.Args) != 1 {
			if cur >= 0 && c.Pid == r.worker {
				r.opCalls[cur] = append(r.opCalls[cur], i)
			}
			continue
		}
		txt := nthString(c.Args, 0)
		switch {
		case strings.HasPrefix(txt, "BEGIN "):
			r.worker = c.Pid
			r.begins = append(r.begins, i)
			r.ends = append(r.ends, -1)
			r.opCalls = append(r.opCalls, nil)
			cur = len(r.begins) - 1
		case strings.HasPrefix(txt, "END "):
			if cur >= 0 {
				r.ends[cur] = i
			}
			cur = -1
		}
	}
	for _, l := range strings.Split(r.stdout, "\n") {
		if strings.HasPrefix(l, "END ") {
			parts := strings.SplitN(l, " ", 3)
			if len(parts) == 3 {
				r.endText = append(r.endText, parts[2])
			}
		}
	}
	if se.Len() != 0 && !r.killed && r.exitCode != 0 {
		return r, fmt.Errorf("helper failed: %s", firstLine(se.String()))
	}
	return r, nil
}

// ordinal returns the position of call i among the calls of the same name by
// the same thread, 1-based: strace counts per thread and per system call.
func (r *fsRun) ordinal(i int) int {
	n := 0
	for j := 0; j <= i; j++ {
		if r.calls[j].Pid == r.calls[i].Pid && r.calls[j].Name == r.calls[i].Name {
			n++
		}
	}
	return n
}

func verifyDir(dir string) (*fsops.Verdict, error) {
	cmd := exec.Command(fskillBin(), "verify", dir)
	out, err := cmd.Output()
	if err != nil {
		return nil, fmt.Errorf("verify: %v", err)
	}
	var v fsops.Verdict
	if err := json.Unmarshal(out, &v); err != nil {
		return nil, err
	}
	return &v, nil
}

// ---- model ----

type fsVal struct {
	Len int
	Sum string
}

type fsModel map[uint]fsVal

func (m fsModel) clone() fsModel {
	n := fsModel{}
	for k, v := range m {
		n[k] = v
	}
	return n
}

func (m fsModel) apply(o fsops.Op) {
	switch o.Op {
	case "save":
		b := fsops.Bytes(o)
		m[o.Key] = fsVal{len(b), fmt.Sprintf("%x", sha256.Sum256(b))}
	case "delete":
		delete(m, o.Key)
	}
}

func describeVal(v fsVal, ok bool) string {
	if !ok {
		return "absent"
	}
	return fmt.Sprintf("%d bytes %s…", v.Len, v.Sum[:8])
}

// checkState compares what a fresh process sees with the model. inProgress is
// the interrupted operation (nil when none): its key may hold the previous or
// the new value.
func checkState(c *run.Ctx, what string, v *fsops.Verdict, prev fsModel, inProgress *fsops.Op, detail map[string]any) bool {
	ok := true
	viol := func(sig, msg string) {
		c.Violate(sig, what+": "+msg, detail)
		ok = false
	}
	if v.ListError != "" {
		viol("list-fails", "List failed in a fresh process: "+v.ListError)
		return false
	}
	seen := map[uint]bool{}
	state := fsModel{}
	for _, e := range v.Entries {
		if seen[e.Key] {
			viol("listed-twice", fmt.Sprintf("List reports key %#x twice", e.Key))
		}
		seen[e.Key] = true
		if e.Err != "" {
			viol("listed-key-does-not-load", fmt.Sprintf("List reports key %#x, Load fails: %s", e.Key, e.Err))
			continue
		}
		if e.Absent {
			viol("listed-key-does-not-load", fmt.Sprintf("List reports key %#x, Load returns nothing", e.Key))
			continue
		}
		state[e.Key] = fsVal{e.Len, e.Sum}
	}
	var next fsModel
	if inProgress != nil {
		next = prev.clone()
		next.apply(*inProgress)
	}
	keys := map[uint]bool{}
	for k := range prev {
		keys[k] = true
	}
	for k := range state {
		keys[k] = true
	}
	if inProgress != nil {
		keys[inProgress.Key] = true
	}
	for k := range keys {
		got, gotOK := state[k]
		if seen[k] && !gotOK {
			continue // reported above
		}
		old, oldOK := prev[k]
		if inProgress != nil && k == inProgress.Key {
			nw, nwOK := next[k]
			if gotOK == oldOK && got == old || gotOK == nwOK && got == nw {
				continue
			}
			sig := "neither-previous-nor-new-value"
			if gotOK && got.Len == 0 {
				sig = "empty-value-after-stop"
			} else if gotOK && nwOK && got.Len < nw.Len {
				sig = "partial-value-after-stop"
			}
			viol(sig, fmt.Sprintf("key %#x holds %s; previous value %s, new value %s (%s in progress)", k, describeVal(got, gotOK), describeVal(old, oldOK), describeVal(nw, nwOK), inProgress.Op))
			continue
		}
		if (gotOK != oldOK || got != old) && inProgress == nil {
			viol("state-differs-from-reported-outcomes", fmt.Sprintf("key %#x holds %s; the outcomes the operations reported imply %s", k, describeVal(got, gotOK), describeVal(old, oldOK)))
			continue
		}
		if gotOK != oldOK || got != old {
			viol("other-key-disturbed", fmt.Sprintf("key %#x holds %s, expected %s; it was not part of the interrupted or failed operation", k, describeVal(got, gotOK), describeVal(old, oldOK)))
		}
	}
	return ok
}

// ---- monitor 2: system call order of a successful Save ----

func isListedName(path string) bool {
	name := filepath.Base(path)
	if len(name) != 5 {
		return false
	}
	_, err := strconv.ParseUint(name, 16, 17)
	return err == nil
}

// checkSaveOrder inspects the calls of one Save that reported success: the
// content must be written to a file that List does not report, flushed, and
// only then become visible under the key.
func checkSaveOrder(c *run.Ctx, r *fsRun, op int, o fsops.Op, dir string, detail map[string]any) (judged bool) {
	final := filepath.Join(dir, fmt.Sprintf("%05x", o.Key))
	fdPath := map[int]string{}
	type st struct {
		written bool // data written since the last successful flush
		bytes   int
	}
	perPath := map[string]*st{}
	visibleBy := ""
	var seq []string
	for _, i := range r.opCalls[op] {
		cl := r.calls[i]
		seq = append(seq, cl.Name)
		switch {
		case cl.Name == "openat" || cl.Name == "open" || cl.Name == "creat":
			if !cl.ok() {
				continue
			}
			path := nthString(cl.Args, 0)
			fd, _ := strconv.Atoi(strings.Fields(cl.Ret)[0])
			fdPath[fd] = path
			if strings.Contains(cl.Args, "O_WRONLY") || strings.Contains(cl.Args, "O_RDWR") || cl.Name == "creat" {
				if perPath[path] == nil {
					perPath[path] = &st{}
				}
				if isListedName(path) && strings.HasPrefix(path, dir) {
					c.Violate("writes-in-place", fmt.Sprintf("Save(%#x) opens %s for writing: a stop leaves a partial value under a name that List reports", o.Key, filepath.Base(path)), detail)
					return true
				}
			}
		case writeCalls[cl.Name]:
			fd := firstInt(cl.Args)
			path, known := fdPath[fd]
			if !known {
				continue
			}
			if s := perPath[path]; s != nil && cl.ok() {
				s.written = true
			}
		case cl.Name == "fsync" || cl.Name == "fdatasync":
			fd := firstInt(cl.Args)
			if s := perPath[fdPath[fd]]; s != nil && cl.ok() {
				s.written = false
			}
		case cl.Name == "sync" || cl.Name == "syncfs":
			if cl.ok() {
				for _, s := range perPath {
					s.written = false
				}
			}
		case renameCalls[cl.Name]:
			if !cl.ok() {
				continue
			}
			src, dst := nthString(cl.Args, 0), nthString(cl.Args, 1)
			if dst != final {
				continue
			}
			visibleBy = cl.Name
			s := perPath[src]
			if s == nil {
				c.Inconclusive(fmt.Sprintf("Save(%#x): %s from a file this operation did not write", o.Key, cl.Name))
				return false
			}
			if s.written {
				c.Violate("visible-before-flush", fmt.Sprintf("Save(%#x) returned nil, yet the value became visible under its key (%s) with written data not flushed by fsync: system calls %s", o.Key, cl.Name, strings.Join(seq, " ")), detail)
				return true
			}
		}
	}
	if visibleBy == "" {
		c.Inconclusive(fmt.Sprintf("Save(%#x) reported success without a rename or link onto the key: %s", o.Key, strings.Join(seq, " ")))
		return false
	}
	// nothing is written to the visible file afterwards
	return true
}

// ---- the kill / fault enumeration of one script ----

type c19Stats struct {
	kills, killsInside, fsizeKills, faults, orderChecked, verifies, recoveries int
	kinds                                                                      map[string]bool
}

func genScript(c *run.Ctx) []fsops.Op {
	nkeys := 1 + c.Rng.Intn(3)
	keys := []uint{0, 0x8000 + uint(c.Rng.Intn(0x4000)), 0xc000 + uint(c.Rng.Intn(0x4000)), 0x10000 + uint(c.Rng.Intn(0xffff)), 0x1ffff}
	c.Rng.Shuffle(len(keys), func(i, j int) { keys[i], keys[j] = keys[j], keys[i] })
	keys = keys[:nkeys]
	sizes := []int{12, 13, 100, 4096, 4097, 70000, 1 << 20, 4 << 20}
	if c.Tier != "thorough" {
		sizes = []int{12, 13, 100, 4096, 70000, 1 << 20}
		if c.Rng.Intn(6) == 0 {
			sizes = append(sizes, 4<<20)
		}
	}
	n := 2 + c.Rng.Intn(4)
	var ops []fsops.Op
	present := map[uint]bool{}
	for i := 0; i < n; i++ {
		k := keys[c.Rng.Intn(len(keys))]
		if present[k] && c.Rng.Intn(3) == 0 {
			ops = append(ops, fsops.Op{Op: "delete", Key: k})
			present[k] = false
			continue
		}
		if !present[k] && c.Rng.Intn(8) == 0 {
			ops = append(ops, fsops.Op{Op: "delete", Key: k}) // of an absent key
			continue
		}
		ops = append(ops, fsops.Op{Op: "save", Key: k, Size: sizes[c.Rng.Intn(len(sizes))], Seed: c.Case*100 + i + 1, Bufs: 1 + c.Rng.Intn(3)})
		present[k] = true
	}
	return ops
}

// modelFromEnds replays the script following the reported outcomes.
func modelFromEnds(ops []fsops.Op, ends []string, upTo int) fsModel {
	m := fsModel{}
	for i := 0; i < upTo && i < len(ops) && i < len(ends); i++ {
		if ends[i] == "ok" {
			m.apply(ops[i])
		}
	}
	return m
}

func c19Script(c *run.Ctx) {
	stats := &c19Stats{kinds: map[string]bool{}}
	work := filepath.Join(run.Root, "work", "C19")
	os.MkdirAll(work, 0o755)
	base, err := os.MkdirTemp(work, fmt.Sprintf("case%d-", c.Case))
	if err != nil {
		c.Inconclusive("no work directory: " + err.Error())
		return
	}
	defer os.RemoveAll(base)
	ops := genScript(c)
	script := filepath.Join(base, "script.json")
	sb, _ := json.Marshal(ops)
	os.WriteFile(script, sb, 0o644)
	freshDir := func() string {
		d := filepath.Join(base, "store")
		os.RemoveAll(d)
		os.MkdirAll(d, 0o755)
		return d + "/"
	}
	opsText := func() []string {
		var t []string
		for _, o := range ops {
			if o.Op == "save" {
				t = append(t, fmt.Sprintf("save %#x %dB/%d", o.Key, o.Size, o.Bufs))
			} else {
				t = append(t, fmt.Sprintf("delete %#x", o.Key))
			}
		}
		return t
	}()
	detailOf := func(r *fsRun, extra map[string]any) map[string]any {
		m := map[string]any{"script": opsText, "stdout": r.stdout}
		var tail []string
		for _, cl := range r.calls {
			if cl.Pid == r.worker {
				s := fmt.Sprintf("%s(%.60s) = %s", cl.Name, cl.Args, cl.Ret)
				if !cl.Finished {
					s = fmt.Sprintf("%s(%.60s) <killed at entry>", cl.Name, cl.Args)
				}
				tail = append(tail, s)
			}
		}
		if len(tail) > 40 {
			tail = tail[len(tail)-40:]
		}
		m["worker_syscalls_tail"] = tail
		for k, v := range extra {
			m[k] = v
		}
		return m
	}

	// uninterrupted run
	dir := freshDir()
	b, err := runFskill(base, dir, script, nil, "")
	if err != nil || b.killed || len(b.begins) != len(ops) || len(b.endText) != len(ops) {
		c.Inconclusive(fmt.Sprintf("baseline run unusable: %v (%d of %d operations)", err, len(b.endText), len(ops)))
		return
	}
	for i, t := range b.endText {
		if t != "ok" {
			c.Violate("operation-fails-on-healthy-file-system", fmt.Sprintf("%s reported %s", opsText[i], t), detailOf(b, nil))
			return
		}
	}
	v, err := verifyDir(dir)
	if err != nil {
		c.Inconclusive(err.Error())
		return
	}
	stats.verifies++
	if !checkState(c, "after the uninterrupted script", v, modelFromEnds(ops, b.endText, len(ops)), nil, detailOf(b, nil)) {
		return
	}
	for i, o := range ops {
		if o.Op == "save" {
			if checkSaveOrder(c, b, i, o, dir, detailOf(b, nil)) {
				stats.orderChecked++
			}
		}
	}

	// stop at the entry of every system call of every operation (= after the
	// previous one), including the marker writes around it
	type point struct{ op, call int }
	var points []point
	for i := range ops {
		points = append(points, point{i, b.begins[i]})
		for _, ci := range b.opCalls[i] {
			points = append(points, point{i, ci})
		}
		if b.ends[i] >= 0 {
			points = append(points, point{i, b.ends[i]})
		}
	}
	limit := 40
	if c.Tier == "thorough" {
		limit = 200
	}
	if len(points) > limit {
		c.Rng.Shuffle(len(points), func(i, j int) { points[i], points[j] = points[j], points[i] })
		points = points[:limit]
	}
	for _, pt := range points {
		cl := b.calls[pt.call]
		dir := freshDir()
		r, err := runFskill(base, dir, script, nil, fmt.Sprintf("%s:signal=SIGKILL:when=%d", cl.Name, b.ordinal(pt.call)))
		if err != nil {
			c.Inconclusive("kill run failed: " + err.Error())
			continue
		}
		if !r.killed {
			c.Count("kill_runs_that_ran_to_completion", 1)
			continue
		}
		stats.kills++
		// where it landed, from the run's own log
		begun, ended := len(r.begins), len(r.endText)
		var inProg *fsops.Op
		if begun > ended && begun-1 < len(ops) {
			inProg = &ops[begun-1]
			if len(r.opCalls[begun-1]) > 0 {
				stats.killsInside++
			}
		}
		// a marker whose write was killed at entry was not printed: the operation
		// before it is complete, which the model derives from the END lines; an END
		// marker killed at entry leaves its operation "in progress" for the oracle,
		// which then accepts previous or new
		v, err := verifyDir(dir)
		if err != nil {
			c.Inconclusive(err.Error())
			continue
		}
		stats.verifies++
		where := fmt.Sprintf("process killed at the entry of %s(%.50s), %d system calls into %s", cl.Name, cl.Args, len(r.opCalls[max(begun-1, 0)]), opsText[min(pt.op, len(ops)-1)])
		prev := modelFromEnds(ops, r.endText, ended)
		if !checkState(c, where, v, prev, inProg, detailOf(r, map[string]any{"after_kill": v})) {
			return
		}
		kind := cl.Name
		if cl.Name == "write" && firstInt(cl.Args) == 1 {
			kind = "marker"
		}
		stats.kinds[fmt.Sprintf("kill@%s|%s|%s", kind, ops[pt.op].Op, sizeClass(ops[pt.op].Size))] = true
		// life goes on in a fresh process: the interrupted key gets a shorter value,
		// whatever the stop left behind must not leak into it
		if inProg != nil && inProg.Op == "save" && inProg.Size > 12 {
			if !recoverySave(c, base, dir, *inProg, v, where, stats) {
				return
			}
		}
	}

	// stops and errors inside the data write, by a file size limit
	for i, o := range ops {
		if o.Op != "save" || o.Size < 2 {
			continue
		}
		cuts := []int{1, o.Size / 2, o.Size - 1}
		if o.Bufs > 1 {
			cuts = append(cuts, o.Size/o.Bufs, o.Size/o.Bufs+1)
		}
		if c.Tier != "thorough" {
			cuts = []int{cuts[c.Rng.Intn(len(cuts))], cuts[c.Rng.Intn(len(cuts))]}
		}
		for _, cut := range cuts {
			if cut <= 0 || cut >= o.Size {
				continue
			}
			extra := []string{"-fsize", strconv.Itoa(cut), "-at", strconv.Itoa(i)}
			dir := freshDir()
			r, err := runFskill(base, dir, script, extra, "")
			if err != nil || r.killed || len(r.endText) != len(ops) {
				c.Inconclusive(fmt.Sprintf("file size limit run unusable: %v", err))
				continue
			}
			stats.faults++
			v, err := verifyDir(dir)
			if err != nil {
				c.Inconclusive(err.Error())
				continue
			}
			stats.verifies++
			where := fmt.Sprintf("write error after %d of %d bytes of %s (file size limit), outcome %q", cut, o.Size, opsText[i], r.endText[i])
			if !checkState(c, where, v, modelFromEnds(ops, r.endText, len(ops)), nil, detailOf(r, map[string]any{"after_run": v})) {
				return
			}
			for j, o2 := range ops {
				if o2.Op == "save" && r.endText[j] == "ok" {
					checkSaveOrder(c, r, j, o2, dir, detailOf(r, nil))
				}
			}
			stats.kinds[fmt.Sprintf("write-error-inside|%s", sizeClass(o.Size))] = true
			// the same with a stop at the failing write
			failing := -1
			for _, ci := range r.opCalls[i] {
				if cl := r.calls[ci]; cl.Name == "write" && strings.Contains(cl.Ret, "EFBIG") {
					failing = ci
					break
				}
			}
			if failing < 0 {
				continue
			}
			dir = freshDir()
			k, err := runFskill(base, dir, script, extra, fmt.Sprintf("write:signal=SIGKILL:when=%d", r.ordinal(failing)))
			if err != nil || !k.killed {
				c.Count("kill_runs_that_ran_to_completion", 1)
				continue
			}
			stats.fsizeKills++
			v, err = verifyDir(dir)
			if err != nil {
				c.Inconclusive(err.Error())
				continue
			}
			stats.verifies++
			begun, ended := len(k.begins), len(k.endText)
			var inProg *fsops.Op
			if begun > ended {
				inProg = &ops[begun-1]
			}
			where = fmt.Sprintf("process killed inside the data write of %s after %d of %d bytes", opsText[i], cut, o.Size)
			if !checkState(c, where, v, modelFromEnds(ops, k.endText, ended), inProg, detailOf(k, map[string]any{"after_kill": v})) {
				return
			}
			stats.kinds[fmt.Sprintf("kill-inside-write|%s|%s", sizeClass(o.Size), cutClass(cut, o.Size))] = true
			if inProg != nil && inProg.Op == "save" && inProg.Size > 12 {
				if !recoverySave(c, base, dir, *inProg, v, where, stats) {
					return
				}
			}
		}
	}

	// an error at each system call of each operation
	errOf := map[string]string{"openat": "EACCES", "write": "ENOSPC", "fsync": "EIO", "close": "EIO", "renameat": "EIO", "unlinkat": "EIO"}
	var faultPoints []point
	for i := range ops {
		for _, ci := range b.opCalls[i] {
			if errOf[b.calls[ci].Name] != "" {
				faultPoints = append(faultPoints, point{i, ci})
			}
		}
	}
	flimit := 16
	if c.Tier == "thorough" {
		flimit = 100
	}
	if len(faultPoints) > flimit {
		c.Rng.Shuffle(len(faultPoints), func(i, j int) { faultPoints[i], faultPoints[j] = faultPoints[j], faultPoints[i] })
		faultPoints = faultPoints[:flimit]
	}
	for _, pt := range faultPoints {
		cl := b.calls[pt.call]
		dir := freshDir()
		r, err := runFskill(base, dir, script, nil, fmt.Sprintf("%s:error=%s:when=%d", cl.Name, errOf[cl.Name], b.ordinal(pt.call)))
		if err != nil || r.killed || len(r.endText) != len(ops) {
			c.Inconclusive(fmt.Sprintf("error injection run unusable: %v", err))
			continue
		}
		stats.faults++
		v, err := verifyDir(dir)
		if err != nil {
			c.Inconclusive(err.Error())
			continue
		}
		stats.verifies++
		where := fmt.Sprintf("%s on %s(%.50s) during %s, outcome %q", errOf[cl.Name], cl.Name, cl.Args, opsText[pt.op], r.endText[pt.op])
		if !checkState(c, where, v, modelFromEnds(ops, r.endText, len(ops)), nil, detailOf(r, map[string]any{"after_run": v})) {
			return
		}
		for j, o2 := range ops {
			if o2.Op == "save" && r.endText[j] == "ok" {
				if checkSaveOrder(c, r, j, o2, dir, detailOf(r, map[string]any{"injected": where})) {
					stats.orderChecked++
				}
			}
		}
		stats.kinds[fmt.Sprintf("error@%s|%s", cl.Name, ops[pt.op].Op)] = true
	}

	for k := range stats.kinds {
		c.Trigger(k)
	}
	c.Count("kill_runs", stats.kills)
	c.Count("kills_inside_an_operation", stats.killsInside)
	c.Count("kills_inside_a_data_write", stats.fsizeKills)
	c.Count("error_injection_runs", stats.faults)
	c.Count("fresh_process_verifications", stats.verifies)
	c.Count("recovery_saves_after_a_kill", stats.recoveries)
	c.Count("save_call_orders_checked", stats.orderChecked)
	c.Sample(map[string]any{"script": opsText, "kill_runs": stats.kills, "kills_inside_a_data_write": stats.fsizeKills, "error_injection_runs": stats.faults})
}

// recoverySave saves a shorter value under the key of an interrupted Save from
// a fresh process and checks what a further fresh process reads back.
func recoverySave(c *run.Ctx, base, dir string, interrupted fsops.Op, after *fsops.Verdict, where string, stats *c19Stats) bool {
	op := fsops.Op{Op: "save", Key: interrupted.Key, Size: 12 + interrupted.Seed%5, Seed: interrupted.Seed + 7000, Bufs: 1}
	script := filepath.Join(base, "recovery.json")
	sb, _ := json.Marshal([]fsops.Op{op})
	os.WriteFile(script, sb, 0o644)
	out, err := exec.Command(fskillBin(), "run", dir, script).Output()
	if err != nil {
		c.Inconclusive("recovery run failed: " + err.Error())
		return true
	}
	want := fsModel{}
	for _, e := range after.Entries {
		if e.Err == "" && !e.Absent {
			want[e.Key] = fsVal{e.Len, e.Sum}
		}
	}
	if strings.Contains(string(out), "END 0 ok") {
		want.apply(op)
	}
	v2, err := verifyDir(dir)
	if err != nil {
		c.Inconclusive(err.Error())
		return true
	}
	stats.verifies++
	stats.recoveries++
	return checkState(c, where+"; then a fresh process saved a "+strconv.Itoa(op.Size)+" byte value under that key (outcome "+strings.TrimSpace(string(out))+")", v2, want, nil, map[string]any{"after_kill": after, "after_recovery": v2})
}

func sizeClass(n int) string {
	switch {
	case n == 0:
		return "-"
	case n < 100:
		return "tiny"
	case n <= 4097:
		return "page"
	case n < 1<<20:
		return "multi-page"
	}
	return "MiB"
}

func cutClass(cut, size int) string {
	switch {
	case cut == 1:
		return "first-byte"
	case cut == size-1:
		return "last-byte"
	}
	return "middle"
}

// ---- monitor 3: concurrent use, linearizability per key ----

type fsIn struct {
	Op  string // save, delete, load
	Key uint
	Val uint64 // identity of the saved value
}

type fsOut struct {
	Val    uint64 // identity of the loaded value; 0 = nothing
	Broken string
}

func valueBytes(id uint64, size int) []byte {
	b := make([]byte, size)
	for i := 0; i+8 <= size; i += 8 {
		binary.LittleEndian.PutUint64(b[i:], id+uint64(i))
	}
	for i := size &^ 7; i < size; i++ {
		b[i] = byte(id)
	}
	return b
}

func valueID(b []byte) (id uint64, broken string) {
	if len(b) < 8 {
		return 0, fmt.Sprintf("value of %d bytes", len(b))
	}
	id = binary.LittleEndian.Uint64(b)
	size := int(id >> 40)
	if size != len(b) {
		return id, fmt.Sprintf("value of %d bytes claims %d", len(b), size)
	}
	if !bytes.Equal(b, valueBytes(id, size)) {
		return id, "content is a mixture"
	}
	return id, ""
}

func c19Concurrent(c *run.Ctx) {
	work := filepath.Join(run.Root, "work", "C19")
	os.MkdirAll(work, 0o755)
	dir, err := os.MkdirTemp(work, fmt.Sprintf("conc%d-", c.Case))
	if err != nil {
		c.Inconclusive(err.Error())
		return
	}
	defer os.RemoveAll(dir)
	store := mqtt.FileSystem(dir)
	nkeys := 1 + c.Rng.Intn(4)
	keys := make([]uint, nkeys)
	for i := range keys {
		keys[i] = []uint{0, 0x8000, 0xc001, 0x10002, 0x1ffff}[i] + uint(c.Rng.Intn(3))
	}
	if c.Rng.Intn(2) == 0 && nkeys >= 2 {
		// an outbound record and the reception marker of the same packet identifier:
		// keys that differ in the top bit only
		id := uint(0x8000 + c.Rng.Intn(0x8000))
		keys[0], keys[1] = id, id|0x10000
	}
	writers := nkeys // one mutating goroutine per key at a time
	readers := 1 + c.Rng.Intn(8)
	listers := 1 + c.Rng.Intn(3)
	opsPer := 30 + c.Rng.Intn(60)

	var clock atomic.Int64
	var mu sync.Mutex
	var hist []porcupine.Operation
	type listObs struct {
		call, ret int64
		keys      []uint
	}
	var lists []listObs
	var problems []string
	record := func(client int, in fsIn, out fsOut, call, ret int64) {
		mu.Lock()
		hist = append(hist, porcupine.Operation{ClientId: client, Input: in, Output: out, Call: call, Return: ret})
		if out.Broken != "" {
			problems = append(problems, fmt.Sprintf("Load(%#x) returned a damaged value: %s", in.Key, out.Broken))
		}
		mu.Unlock()
	}
	var wg sync.WaitGroup
	var idSeq atomic.Uint64
	for wi := 0; wi < writers; wi++ {
		wg.Add(1)
		seed := c.Rng.Int63()
		go func(wi int, key uint) {
			defer wg.Done()
			rng := newRand(seed)
			for i := 0; i < opsPer; i++ {
				if rng.Intn(4) == 0 {
					call := clock.Add(1)
					err := store.Delete(key)
					ret := clock.Add(1)
					if err != nil {
						mu.Lock()
						problems = append(problems, fmt.Sprintf("Delete(%#x): %v", key, err))
						mu.Unlock()
						return
					}
					record(wi, fsIn{Op: "delete", Key: key}, fsOut{}, call, ret)
					continue
				}
				size := []int{12, 64, 4096, 70000, 300000}[rng.Intn(5)]
				id := uint64(size)<<40 | idSeq.Add(1)<<8
				val := valueBytes(id, size)
				cut := rng.Intn(size)
				call := clock.Add(1)
				err := store.Save(key, [][]byte{val[:cut:cut], val[cut:]})
				ret := clock.Add(1)
				if err != nil {
					mu.Lock()
					problems = append(problems, fmt.Sprintf("Save(%#x): %v", key, err))
					mu.Unlock()
					return
				}
				record(wi, fsIn{Op: "save", Key: key, Val: id}, fsOut{}, call, ret)
			}
		}(wi, keys[wi])
	}
	stop := make(chan struct{})
	var rwg sync.WaitGroup
	for ri := 0; ri < readers; ri++ {
		rwg.Add(1)
		seed := c.Rng.Int63()
		go func(ri int) {
			defer rwg.Done()
			rng := newRand(seed)
			for {
				select {
				case <-stop:
					return
				default:
				}
				key := keys[rng.Intn(len(keys))]
				call := clock.Add(1)
				v, err := store.Load(key)
				ret := clock.Add(1)
				if err != nil {
					mu.Lock()
					problems = append(problems, fmt.Sprintf("Load(%#x): %v", key, err))
					mu.Unlock()
					return
				}
				out := fsOut{}
				if v != nil {
					out.Val, out.Broken = valueID(v)
				}
				record(writers+ri, fsIn{Op: "load", Key: key}, out, call, ret)
			}
		}(ri)
	}
	for li := 0; li < listers; li++ {
		rwg.Add(1)
		go func() {
			defer rwg.Done()
			for {
				select {
				case <-stop:
					return
				default:
				}
				call := clock.Add(1)
				ks, err := store.List()
				ret := clock.Add(1)
				mu.Lock()
				if err != nil {
					problems = append(problems, fmt.Sprintf("List: %v", err))
					mu.Unlock()
					return
				}
				lists = append(lists, listObs{call, ret, ks})
				mu.Unlock()
				time.Sleep(50 * time.Microsecond)
			}
		}()
	}
	wg.Wait()
	close(stop)
	rwg.Wait()

	for _, p := range problems {
		sig := "concurrent-operation-fails"
		if strings.Contains(p, "damaged value") {
			sig = "torn-read"
		}
		c.Violate(sig, p, map[string]any{"keys": fmt.Sprintf("%x", keys), "readers": readers})
		return
	}
	model := porcupine.Model{
		Partition: func(h []porcupine.Operation) [][]porcupine.Operation {
			by := map[uint][]porcupine.Operation{}
			for _, o := range h {
				k := o.Input.(fsIn).Key
				by[k] = append(by[k], o)
			}
			var out [][]porcupine.Operation
			for _, v := range by {
				out = append(out, v)
			}
			return out
		},
		Init: func() any { return uint64(0) },
		Step: func(state, in, out any) (bool, any) {
			i := in.(fsIn)
			switch i.Op {
			case "save":
				return true, i.Val
			case "delete":
				return true, uint64(0)
			}
			return out.(fsOut).Val == state.(uint64), state
		},
	}
	res := porcupine.CheckOperationsTimeout(model, hist, 60*time.Second)
	switch res {
	case porcupine.Illegal:
		c.Violate("history-not-linearizable", fmt.Sprintf("the recorded history of %d Save/Load/Delete operations over %d keys has no sequential explanation per key", len(hist), nkeys), map[string]any{"keys": fmt.Sprintf("%x", keys), "operations": len(hist)})
		return
	case porcupine.Unknown:
		c.Inconclusive("linearizability check timed out")
	}
	// List: every reported key was present at some instant of the call, and
	// loads; a key that certainly existed throughout is reported
	type mut struct {
		call, ret int64
		save      bool
	}
	muts := map[uint][]mut{}
	for _, o := range hist {
		i := o.Input.(fsIn)
		if i.Op == "save" || i.Op == "delete" {
			muts[i.Key] = append(muts[i.Key], mut{o.Call, o.Return, i.Op == "save"})
		}
	}
	for k := range muts {
		sort.Slice(muts[k], func(i, j int) bool { return muts[k][i].call < muts[k][j].call })
	}
	listedKeys := 0
	for _, l := range lists {
		seen := map[uint]bool{}
		for _, k := range l.keys {
			listedKeys++
			seen[k] = true
			possible := false
			ms := muts[k]
			for i, m := range ms {
				if !m.save || m.call > l.ret {
					continue
				}
				// present from somewhere inside this save until the next delete ends at the latest
				until := int64(1) << 62
				for _, d := range ms[i+1:] {
					if !d.save {
						until = d.ret
						break
					}
				}
				if until >= l.call {
					possible = true
					break
				}
			}
			if !possible {
				c.Violate("list-reports-absent-key", fmt.Sprintf("List (#%d–#%d) reports key %#x, which was at no instant of the call present", l.call, l.ret, k), map[string]any{"keys": fmt.Sprintf("%x", keys)})
				return
			}
		}
		for k, ms := range muts {
			// certainly present throughout: a save returned before the call and no delete began before the return
			certain := false
			for i, m := range ms {
				if m.save && m.ret < l.call {
					certain = true
					for _, d := range ms[i+1:] {
						if !d.save && d.call <= l.ret {
							certain = false
						}
					}
				}
			}
			if certain && !seen[k] {
				c.Violate("list-misses-present-key", fmt.Sprintf("List (#%d–#%d) does not report key %#x, which was present throughout", l.call, l.ret, k), map[string]any{"keys": fmt.Sprintf("%x", keys)})
				return
			}
		}
	}
	c.Count("history_operations", len(hist))
	c.Count("list_calls", len(lists))
	c.Count("listed_keys_checked", listedKeys)
	c.Count("histories_checked_with_porcupine", 1)
	c.Trigger(fmt.Sprintf("concurrent|keys=%d|readers=%d|listers=%d", nkeys, min(readers, 4), listers))
	c.Sample(map[string]any{"scenario": "concurrent", "keys": nkeys, "writers": writers, "readers": readers, "listers": listers, "operations": len(hist), "porcupine": fmt.Sprint(res)})
}

func init() {
	run.Register(&run.Prop{
		ID:    "C19",
		Level: "fault_enumeration",
		Cases: func(tier string) int {
			if tier == "thorough" {
				return 800
			}
			return 40
		},
		ChunkSize:    2,
		ChildTimeout: 900,
		Rule:         "three in four cases are scripts of 2-5 Save/Delete operations on 1-3 keys (client identifier, both publish ranges, marker range, highest key; first writes, overwrites, deletes of present and absent keys; values 12 B-4 MiB in 1-3 buffers) run by a helper process built from the working tree (one locked OS thread) under strace: (1) an uninterrupted run gives the helper's own system call sequence; (2) one run per system call of every operation (and per marker write around it) with SIGKILL injected at the entry of that call (= stop after the previous one), then a FRESH process lists and loads: every key must hold its complete previous or complete new value (sha256), other keys the model value, every listed key must load, no key twice; (3) stops inside the data write at byte counts {1, half, buffer boundary +-1, all but one} through RLIMIT_FSIZE with the retry write killed, and the same limit without the kill as a write error after partial progress; after every stop inside a Save a further fresh process saves a shorter value under that key and another one reads it back: exactly the new value, nothing of what the stop left behind; (4) an error injected at each openat/write/fsync/close/renameat/unlinkat: the reported outcome drives the model, the final state must equal it; (5) for every Save that reported success, in all of these runs, the call order is checked: data written to a name List does not report, a successful fsync after the last write, only then rename onto the key. One in four cases runs 1-4 writer goroutines (one per key; half of the time two of the keys are an outbound record and the reception marker of the same packet identifier), 1-8 readers and 1-3 listers on the real store under the race detector and checks the recorded history with porcupine against a per-key register (reads return complete values only), List against the presence intervals. One case in sixteen stores 513-2,012 keys among 600 foreign files and compares List with what is there, before and after deleting a third. Non-trivial: a kill or error that landed inside an operation; distinct by (system call, operation, size class, cut class).",
		Assumptions: []string{
			"a killed process keeps the page cache: 'flushed before visible' is observed as system call order (successful fsync before rename), not as bytes surviving power loss",
			"strace injects the signal at system call entry, so the stop lies between two system calls; RLIMIT_FSIZE places it inside the data write",
			"each key has one mutating goroutine at a time, as in the client (sequence lock per level, read routine for markers)",
		},
		Run: func(c *run.Ctx) {
			if c.Case%16 == 11 {
				c19ManyKeys(c)
				return
			}
			if c.Case%4 == 3 {
				c19Concurrent(c)
				return
			}
			c19Script(c)
		},
	})
}

// c19ManyKeys fills the directory with more entries than any batch of a
// directory read holds and compares List with what is there.
func c19ManyKeys(c *run.Ctx) {
	work := filepath.Join(run.Root, "work", "C19")
	os.MkdirAll(work, 0o755)
	dir, err := os.MkdirTemp(work, fmt.Sprintf("many%d-", c.Case))
	if err != nil {
		c.Inconclusive(err.Error())
		return
	}
	defer os.RemoveAll(dir)
	store := mqtt.FileSystem(dir)
	n := 513 + c.Rng.Intn(1500)
	present := map[uint]bool{}
	for len(present) < n {
		k := uint(c.Rng.Intn(0x20000))
		if present[k] {
			continue
		}
		if err := store.Save(k, net.Buffers{[]byte(fmt.Sprintf("value of %05x", k))}); err != nil {
			c.Inconclusive("Save failed: " + err.Error())
			return
		}
		present[k] = true
	}
	// foreign files in between
	for i := 0; i < 600; i++ {
		os.WriteFile(filepath.Join(dir, fmt.Sprintf("foreign-%d.txt", i)), []byte("x"), 0o600)
	}
	check := func(when string) bool {
		keys, err := store.List()
		if err != nil {
			c.Violate("list-fails", fmt.Sprintf("List %s: %v", when, err), nil)
			return false
		}
		got := map[uint]int{}
		for _, k := range keys {
			got[k]++
		}
		missing, extra, twice := 0, 0, 0
		for k := range present {
			if got[k] == 0 {
				missing++
			}
		}
		for k, m := range got {
			if !present[k] {
				extra++
			}
			if m > 1 {
				twice++
			}
		}
		if missing+extra+twice != 0 {
			c.Violate("list-differs-from-content", fmt.Sprintf("List %s with %d keys stored: %d missing, %d that are not there, %d reported twice", when, len(present), missing, extra, twice), nil)
			return false
		}
		return true
	}
	if !check("after the saves") {
		return
	}
	del := 0
	for k := range present {
		if del >= n/3 {
			break
		}
		if err := store.Delete(k); err != nil {
			c.Inconclusive("Delete failed: " + err.Error())
			return
		}
		delete(present, k)
		del++
	}
	if !check("after deleting a third") {
		return
	}
	c.Count("keys_listed_in_large_directories", len(present))
	c.Trigger("many-keys")
}
