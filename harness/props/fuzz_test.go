package props

import (
	"math/rand"
	"testing"

	"verif/run"
)

// FuzzHostile feeds coverage-guided inputs to the C13 oracle: the bytes are
// what the broker sends after a valid CONNACK (or, with the top bit of how set,
// instead of it) to a client with the outstanding requests that how encodes.
// The same reference classifier and monitors as in the generated inputs judge
// the outcome; a violation fails the target, which makes the engine keep the
// input under testdata/fuzz/FuzzHostile.
func FuzzHostile(f *testing.F) {
	for i, dv := range directed {
		f.Add(dv.b, byte(i))
	}
	r := rand.New(rand.NewSource(1))
	for i := 0; i < 24; i++ {
		hs := hostileSetup{n1: i & 3, n2: i >> 2 & 3, sub: i % 3, unsub: i%2 == 0}
		f.Add(validStream(r, hs, 2+r.Intn(6)), byte(i))
	}
	f.Fuzz(func(t *testing.T, in []byte, how byte) {
		if len(in) > 2048 {
			return
		}
		hs := hostileSetup{n1: int(how & 3), n2: int(how >> 2 & 3), sub: int(how >> 4 & 3), unsub: how&0x40 != 0}
		c := run.NewCtx("C13", "thorough", int64(how)+1)
		judgeHostile(c, "fuzz", hs, in, how&0x80 != 0 && len(in) >= 1, false)
		res := c.Result()
		if len(res.Violations) != 0 {
			v := res.Violations[0]
			t.Fatalf("[%s] %s", v.Sig, v.Msg)
		}
	})
}
