package props

import (
	"fmt"
	"strings"

	"verif/run"
	"verif/sim"
	"verif/wire"
)

// interruptedExactlyOnce counts the exactly-once messages that saw a new
// connection between the PUBREL record and completion.
func interruptedExactlyOnce(ep *Episode, a *pubAnalysis) int {
	n := 0
	for _, pi := range a.pubs {
		if pi.relSave == nil {
			continue
		}
		for _, c := range ep.W.Conns {
			if c.DialSeq > pi.relSave.RetSeq && (pi.del == nil || c.DialSeq < pi.del.CallSeq) {
				n++
				break
			}
		}
	}
	return n
}

// checkCallOrder: with a single publisher the acceptance order is the call
// order, so identifiers must ascend with the call order per level.
func checkCallOrder(a *pubAnalysis, all []*sim.Pub) {
	var last [3]*pubInfo
	for _, p := range all {
		pi := a.pubs[p.N]
		if pi == nil || pi.save == nil || !p.Accepted() {
			continue
		}
		if prev := last[p.Level]; prev != nil {
			if pi.save.CallSeq < prev.save.CallSeq {
				a.violate("C05", "accept-order-differs-from-call-order", "level %d: message %d was called after message %d yet saved before", p.Level, p.N, prev.pub.N)
			}
			// a restart with nothing pending on the level legitimately starts the sequence anew
			fresh := false
			if p.Gen != prev.pub.Gen && prev.del != nil {
				for _, e := range a.ep.W.Trace {
					if e.Kind == "adopt" && e.N == p.Gen && prev.del.RetSeq < e.Seq {
						fresh = true
					}
				}
			}
			if (pi.key-prev.key)&0x3fff != 1 && !(fresh && pi.key&0x3fff == 0) {
				a.violate("C17", "identifiers-not-consecutive", "level %d: message %d got %#x after %#x", p.Level, p.N, pi.key, prev.key)
			}
		}
		last[p.Level] = pi
	}
}

// checkLivePubrelOrder: PUBRELs outside the resend go out in PUBREC order.
func checkLivePubrelOrder(ep *Episode, a *pubAnalysis) {
	for ci, pk := range a.out {
		c := ep.W.Conns[ci]
		seen := map[uint16]bool{}
		var last *pubInfo
		for _, p := range pk {
			if p.Type != wire.PUBREL {
				continue
			}
			if seen[p.ID] {
				continue // repeat of a pending one
			}
			seen[p.ID] = true
			pi := a.pktPub(c, p)
			if pi == nil || pi.saveTry == nil {
				continue
			}
			if last != nil && last.saveTry.CallSeq > pi.saveTry.CallSeq {
				a.violate("C05", "pubrel-out-of-order", "conn %d: PUBREL %#x follows PUBREL of the younger message %d", c.Idx, p.ID, last.pub.N)
			}
			last = pi
		}
	}
}

func init() {
	run.Register(&run.Prop{
		ID:    "C03",
		Level: "fault_enumeration",
		Cases: func(tier string) int {
			if tier == "thorough" {
				return 16000
			}
			return 4000
		},
		ChunkSize:   50,
		Rule:        "PRNG-drawn episodes of exactly-once publishes (1-16 messages, 1-2 goroutines) under the fault script of C01, weighted towards lost acknowledgements, read failures and transient store errors so that each of PUBREC, PUBREL, PUBCOMP gets lost in either direction; the reference broker forwards a QoS 2 message once per identifier cycle and its delivery log is the end-to-end oracle. 1 in 6 episodes runs on VolatileSession (wire-level oracle), 1 in 5 ends with 1-2 stops and AdoptSession followed by new publishes, 1 in 60 really completes 16,38x publishes and then restarts (C02's adoption oracle, two generations) on every stop point whose pending range lies across the identifier wrap, with 0-7 transfers at the PUBREL stage. Non-trivial: at least one message saw a new connection between its PUBREL record and its completion; distinct by fault multiset, connections and messages.",
		Assumptions: []string{"the broker forwards a QoS 2 PUBLISH on first receipt and again only after PUBREL ended the cycle (method A of the specification)", "see C01"},
		Run: func(c *run.Ctx) {
			if c.Case == 0 {
				// the whole identifier space in flight, Config maximum beyond it
				ep, a, all := runFullWindow(c, 2, 0x4000+8, 3)
				if a != nil {
					reportPubs(c, ep, a, all, "C03")
					c.Trigger("full-window-16384")
					c.Sample(map[string]any{"scenario": "ExactlyOnceMax=16392, broker withholds every PUBREC, publish until refusal", "accepted": len(all)})
				}
				return
			}
			if c.Case%60 == 9 {
				// restarts with PUBREL records below the identifier wrap and PUBLISH records above it
				wrapRestart(c, []int{2}, c.Rng.Intn(8), "C03")
				c.Count("wrap_restart_cases", 1)
				return
			}
			pp := pubParams{NPub: 1 + c.Rng.Intn(16), Levels: []int{2}, Conc: 1 + c.Rng.Intn(2), Budget: 1 + c.Rng.Intn(8), Yield: c.Rng.Intn(2) == 0, SettleP: c.Rng.Float64(), BigP: 0.02, CleanSession: c.Rng.Intn(3) == 0}
			if c.Rng.Intn(4) == 0 {
				pp.Levels = []int{1, 2}
			}
			if c.Case%6 == 4 {
				pp.Volatile = true
				c.Count("volatile_session_episodes", 1)
			} else if c.Rng.Intn(4) == 0 {
				pp.Restarts = 1 + c.Rng.Intn(2)
				c.Count("episodes_with_restarts", 1)
			}
			ep, a, all := runPubWorkload(c, pp)
			if a == nil {
				return
			}
			reportPubs(c, ep, a, all, "C03")
			if n := interruptedExactlyOnce(ep, a); n > 0 {
				c.Count("interrupted_between_pubrec_and_pubcomp", n)
				c.Trigger(fmt.Sprintf("%s|conns=%d|pubs=%d", faultShape(ep.F), min(len(ep.W.Conns), 6), min(len(all), 8)))
			}
			q2 := 0
			for _, d := range ep.W.Broker.State.Deliveries {
				if d.QoS == 2 {
					q2++
				}
			}
			c.Count("qos2_deliveries_logged", q2)
			c.Sample(map[string]any{"publishes": len(all), "connections": len(ep.W.Conns), "faults_fired": ep.F.Fired, "qos2_deliveries": q2})
		},
	})

	run.Register(&run.Prop{
		ID:    "C05",
		Level: "exploration",
		Cases: func(tier string) int {
			if tier == "thorough" {
				return 8000
			}
			return 1500
		},
		ChunkSize:   50,
		Rule:        "PRNG-drawn episodes in two modes: sequential (one publisher, exact call order) and concurrent (2-8 publisher goroutines on both levels racing the read routine and reconnects, random yield/sleep at the submit, connect and write hook points, race detector on); 1 in 8 episodes runs on VolatileSession (resend completeness and PUBREL order read off the wire); a quarter of the episodes end with 1-2 stops and AdoptSession on the same Persistence followed by new publishes, and 1 in 50 does so with the in-flight window across the 14-bit identifier wrap (after really completing 16,38x publishes). Oracles on the decoded wire per level: first appearances in acceptance (Save) order, resend region = pending set in ascending order before anything new, PUBREL in PUBREC order, DUP iff an earlier complete write in the same process. Non-trivial: >= 2 messages in flight at a reconnect or >= 2 goroutines publishing; distinct by mode, fault multiset, connections, messages.",
		Assumptions: []string{"either DUP value is accepted after a partial earlier write and after a restart (documented)", "the order in which exchange channels close is not asserted: it cannot be observed soundly from outside", "see C01"},
		Run: func(c *run.Ctx) {
			conc := 1
			if c.Rng.Intn(2) == 0 {
				conc = 2 + c.Rng.Intn(7)
			}
			pp := pubParams{NPub: conc * (1 + c.Rng.Intn(10)), Levels: [][]int{{1}, {2}, {1, 2}}[c.Rng.Intn(3)], Conc: conc, Budget: c.Rng.Intn(7), Yield: true, SettleP: c.Rng.Float64() * 0.5, BigP: 0.02, CleanSession: c.Rng.Intn(4) == 0}
			if c.Rng.Intn(4) == 0 {
				pp.Restarts = 1 + c.Rng.Intn(2)
			}
			if pp.Restarts > 0 && conc > 1 {
				// Saves of both levels and of the read routine overlap, one may be slow,
				// and what they leave is what the next process orders its resend by
				pp.SlowSaves = true
				pp.Levels = []int{1, 2}
				pp.HoldP = 0.5
			}
			pp.PlainNoise = pp.Restarts == 0 && c.Rng.Intn(3) == 0
			if c.Case%8 == 3 {
				pp.Volatile = true
				c.Count("volatile_session_episodes", 1)
			}
			if c.Case%50 == 7 {
				// restart with the window across the identifier wrap
				pp.Restarts = 1 + c.Rng.Intn(2)
				pp.Budget = c.Rng.Intn(2)
				pp.HoldP = 0.8 // so that the window spans the wrap at the stop
				for _, lvl := range pp.Levels {
					pp.Prelude[lvl] = 0x4000 - 1 - c.Rng.Intn(pp.NPub/len(pp.Levels)+1)
				}
			}
			ep, a, all := runPubWorkload(c, pp)
			if a == nil {
				return
			}
			if conc == 1 && !pp.Volatile {
				checkCallOrder(a, all)
			}
			if !pp.Volatile {
				checkLivePubrelOrder(ep, a)
			}
			reportPubs(c, ep, a, all, "C05", "C17")
			if pp.PlainNoise {
				checkResendFirst(c, ep)
			}
			resends := ep.W.PointCount("connect.resent")
			mode := "seq"
			if conc > 1 {
				mode = "conc"
			}
			// in flight at a reconnect
			inflight := 0
			for _, cn := range ep.W.Conns[min(1, len(ep.W.Conns)):] {
				n := 0
				for _, pi := range a.pubs {
					if pi.save != nil && pi.save.RetSeq < cn.DialSeq && (pi.del == nil || pi.del.CallSeq > cn.DialSeq) {
						n++
					}
				}
				inflight = max(inflight, n)
			}
			c.Count("max_in_flight_at_reconnect", inflight)
			c.Count("resends_completed", resends)
			c.Count("restarts", pp.Restarts)
			if pp.Prelude[1]+pp.Prelude[2] > 0 {
				c.Count("restarts_at_the_identifier_wrap", pp.Restarts)
				mode += "+wrap"
			}
			if inflight >= 2 || conc > 1 {
				c.Trigger(fmt.Sprintf("%s|%s|conns=%d|inflight=%d|restarts=%d", mode, faultShape(ep.F), min(len(ep.W.Conns), 5), min(inflight, 6), pp.Restarts))
			}
			var hooks []string
			for _, p := range []string{"submit.saved", "connect.dialed", "connect.resent", "write.fail"} {
				hooks = append(hooks, fmt.Sprintf("%s=%d", p, ep.W.PointCount(p)))
			}
			c.Sample(map[string]any{"mode": mode, "goroutines": conc, "publishes": len(all), "connections": len(ep.W.Conns), "hook_points_hit": strings.Join(hooks, " "), "faults_fired": ep.F.Fired})
		},
	})
}

// checkResendFirst: on every connection, whatever goes out before the resend
// of the pending transfers has ended is CONNECT or part of that resend; no
// request made meanwhile slips in between.
func checkResendFirst(c *run.Ctx, ep *Episode) {
	w := ep.W
	w.Mu.Lock()
	defer w.Mu.Unlock()
	resent := map[int]int64{}
	for _, e := range w.Trace {
		if e.Kind == "point" && e.Note == "connect.resent" {
			resent[e.Conn] = e.Seq
		}
	}
	checked := 0
	for _, cn := range w.Conns {
		end, ok := resent[cn.Idx]
		pk, _, _ := wire.ParseStream(cn.Out, true)
		for _, p := range pk {
			if ok && cn.SeqOfOut(p.Offset+1) > end {
				break
			}
			checked++
			switch {
			case p.Type == wire.CONNECT, p.Type == wire.PUBREL, p.Type == wire.PUBLISH && p.QoS > 0:
			default:
				c.Violate("new-request-before-resend-end", fmt.Sprintf("conn %d: %s goes out before the resend of the pending transfers has ended", cn.Idx, p), nil)
				return
			}
		}
	}
	c.Count("packets_checked_against_the_resend_phase", checked)
}
