package props

import (
	"bytes"
	"errors"
	"fmt"
	"math/rand"
	"strings"
	"time"

	"github.com/pascaldekloe/mqtt"

	"verif/run"
	"verif/sim"
	"verif/wire"
)

// inStream is a well-formed broker-to-client stream with its reference
// expectation.
type inStream struct {
	Bytes   []byte // after the CONNACK
	Bounds  []int  // packet end offsets within Bytes
	Returns []wantRet
	Acks    [][]byte // what the client must write, in order
	PrePub  [3]int   // outbound publishes issued (and left unanswered) first
	Desc    []string
	BufSize int
}

type wantRet struct {
	Topic   string
	Payload []byte
	Big     bool
}

func topicOfLen(r *rand.Rand, n int) string {
	b := make([]byte, n)
	for i := range b {
		b[i] = byte('a' + r.Intn(26))
	}
	if n > 2 {
		b[1] = '/'
	}
	return string(b)
}

// genInStream draws a stream. Sizes relate to the read buffer size.
func genInStream(r *rand.Rand, bufSize, nPkt int, withOutbound bool) *inStream {
	s := &inStream{BufSize: bufSize}
	own := map[uint16]bool{}
	var ownIDs []uint16
	nextID := uint16(1 + r.Intn(0xfff0))
	if withOutbound {
		s.PrePub[1], s.PrePub[2] = r.Intn(3), r.Intn(3)
	}
	ackd1, recd2, compd2 := 0, 0, 0
	add := func(raw []byte, desc string) {
		s.Bytes = append(s.Bytes, raw...)
		s.Bounds = append(s.Bounds, len(s.Bytes))
		s.Desc = append(s.Desc, desc)
	}
	payloadSizes := []int{0, 1, 2, 10, bufSize - 40, bufSize - 8, bufSize - 6, bufSize - 5, bufSize - 4, bufSize - 3, bufSize - 2, bufSize - 1, bufSize, bufSize + 1, bufSize + 2, bufSize + 7, 2*bufSize - 3, 2*bufSize + 1, 3*bufSize + 5}
	for i := 0; i < nPkt; i++ {
		switch k := r.Intn(20); {
		case k < 11: // PUBLISH
			qos := byte(r.Intn(3))
			tl := []int{1, 2, 3, 7, 20}[r.Intn(5)]
			if tl > bufSize-8 {
				tl = 3
			}
			topic := topicOfLen(r, tl)
			ps := payloadSizes[r.Intn(len(payloadSizes))]
			if ps < 0 {
				ps = 0
			}
			payload := make([]byte, ps)
			for j := range payload {
				payload[j] = byte(r.Intn(256))
			}
			var id uint16
			dup := false
			if qos != 0 {
				id = nextID
				nextID++
				if nextID == 0 {
					nextID = 1
				}
				if qos == 2 && len(ownIDs) > 0 && r.Intn(3) == 0 {
					// retransmission of one taken into ownership
					id = ownIDs[r.Intn(len(ownIDs))]
					dup = true
				}
			}
			raw := wire.Publish(topic, payload, qos, id, dup, r.Intn(4) == 0)
			_, rem, _ := wire.Header(raw)
			big := rem > bufSize
			desc := fmt.Sprintf("PUBLISH q%d id=%#x topic=%d payload=%d big=%v dup=%v", qos, id, tl, ps, big, dup)
			add(raw, desc)
			switch {
			case qos == 2 && dup:
				s.Acks = append(s.Acks, wire.Ack(wire.PUBREC, id))
			default:
				s.Returns = append(s.Returns, wantRet{topic, payload, big})
				if qos == 1 {
					s.Acks = append(s.Acks, wire.Ack(wire.PUBACK, id))
				}
				if qos == 2 {
					s.Acks = append(s.Acks, wire.Ack(wire.PUBREC, id))
					own[id] = true
					ownIDs = append(ownIDs, id)
				}
			}
		case k < 13: // PUBREL, known or unknown
			var id uint16
			if len(ownIDs) > 0 && r.Intn(4) != 0 {
				j := r.Intn(len(ownIDs))
				id = ownIDs[j]
				ownIDs = append(ownIDs[:j], ownIDs[j+1:]...)
				delete(own, id)
			} else {
				id = uint16(0x100 + r.Intn(0x100))
				for own[id] {
					id++
				}
			}
			add(wire.Ack(wire.PUBREL, id), fmt.Sprintf("PUBREL %#x", id))
			s.Acks = append(s.Acks, wire.Ack(wire.PUBCOMP, id))
		case k < 14:
			add(wire.Pingresp(), "PINGRESP")
		case k < 15:
			add(wire.Suback(uint16(0x6000+r.Intn(0x1fff)), byte(r.Intn(3))), "SUBACK unsolicited")
		case k < 16:
			add(wire.Ack(wire.UNSUBACK, uint16(0x4000+r.Intn(0x1fff))), "UNSUBACK unsolicited")
		case k < 17 && ackd1 < s.PrePub[1]:
			add(wire.Ack(wire.PUBACK, uint16(0x8000+ackd1)), "PUBACK")
			ackd1++
		case k < 18 && recd2 < s.PrePub[2]:
			add(wire.Ack(wire.PUBREC, uint16(0xc000+recd2)), "PUBREC")
			s.Acks = append(s.Acks, wire.Ack(wire.PUBREL, uint16(0xc000+recd2)))
			recd2++
		case k < 19 && compd2 < recd2:
			add(wire.Ack(wire.PUBCOMP, uint16(0xc000+compd2)), "PUBCOMP")
			compd2++
		default:
			add(wire.Publish("x", nil, 0, 0, false, false), "PUBLISH q0 tiny")
			s.Returns = append(s.Returns, wantRet{"x", nil, false})
		}
	}
	return s
}

// appendPublish adds a PUBLISH with the given remaining length to the stream.
func (s *inStream) appendPublish(r *rand.Rand, id uint16, rem int) {
	qos := byte(r.Intn(3))
	topic := topicOfLen(r, 3)
	ps := rem - 2 - len(topic)
	if qos != 0 {
		ps -= 2
	}
	payload := make([]byte, ps)
	r.Read(payload)
	raw := wire.Publish(topic, payload, qos, id, false, false)
	s.Bytes = append(s.Bytes, raw...)
	s.Bounds = append(s.Bounds, len(s.Bytes))
	s.Desc = append(s.Desc, fmt.Sprintf("PUBLISH q%d id=%#x topic=3 remaining-length=%d big=true", qos, id, rem))
	s.Returns = append(s.Returns, wantRet{topic, payload, true})
	switch qos {
	case 1:
		s.Acks = append(s.Acks, wire.Ack(wire.PUBACK, id))
	case 2:
		s.Acks = append(s.Acks, wire.Ack(wire.PUBREC, id))
	}
}

// fragPlan describes how the inbound bytes get cut.
type fragPlan struct {
	Cuts     map[int]bool // absolute inbound offsets after which a Read ends
	Stalls   map[int]bool // cuts followed by an expiry (when legal)
	OneByte  bool
	SkipBigs map[int]bool // indices of big messages left unread
}

// runInStream feeds the stream to a fresh client and compares.
func runInStream(c *run.Ctx, s *inStream, fp fragPlan, label string) (stalls int, ok bool) {
	w := sim.NewWorld(c.Rng.Int63())
	defer w.Shutdown()
	sim.InstallHooks(w)
	w.RequireDeadlines = true
	w.DataCap = 64
	mqtt.VerifSetReadBufSize(s.BufSize)
	w.Mu.Lock()
	w.Broker.Mute = true
	sent := false
	w.Broker.Connack = func(b *sim.Broker, cn *sim.Conn, p *wire.Packet) []byte {
		if sent {
			return wire.Connack(true, 0)
		}
		sent = true
		// CONNACK coalesced with the stream
		return append(wire.Connack(false, 0), s.Bytes...)
	}
	w.ReadPlan = func(cn *sim.Conn, avail int) sim.ReadDecision {
		if avail == 0 {
			return sim.ReadDecision{Then: "block"}
		}
		if cn.Idx != 1 {
			return sim.ReadDecision{Deliver: -1}
		}
		if fp.OneByte {
			return sim.ReadDecision{Deliver: 1}
		}
		next := 0
		for p := range fp.Cuts {
			if n := p - cn.InPos; n >= 1 && n <= avail && (next == 0 || n < next) {
				next = n
			}
		}
		if next != 0 {
			if fp.Stalls[cn.InPos+next] {
				return sim.ReadDecision{Deliver: next, Then: "timeout"}
			}
			return sim.ReadDecision{Deliver: next}
		}
		return sim.ReadDecision{Deliver: -1}
	}
	w.Mu.Unlock()

	cfg := mqtt.Config{Dialer: w.Dialer(), PauseTimeout: time.Hour, ReconnectWaitMin: time.Microsecond, AtLeastOnceMax: 8, ExactlyOnceMax: 8}
	cl, err := mqtt.InitSession("c06", w.Store, &cfg)
	if err != nil {
		c.Violate("init-failed", err.Error(), nil)
		return 0, false
	}
	d := sim.NewDriver(w, cl, nil, 0)
	// outbound publishes first, so that the stream may acknowledge them
	var prePackets [][]byte
	for lvl := 1; lvl <= 2; lvl++ {
		for i := 0; i < s.PrePub[lvl]; i++ {
			p := d.Publish(lvl, false, 3)
			if p.Err != nil {
				c.Violate("init-failed", "pre-publish: "+p.Err.Error(), nil)
				return 0, false
			}
		}
	}
	bigIdx := 0
	d.BigRead = func(b *mqtt.BigMessage) bool {
		i := bigIdx
		bigIdx++
		return !fp.SkipBigs[i]
	}
	d.StartReader()
	detail := func() map[string]any {
		var cuts []int
		for k := range fp.Cuts {
			cuts = append(cuts, k)
		}
		return map[string]any{"fragmentation": label, "buffer_size": s.BufSize, "stream": s.Desc, "cuts": cuts, "one_byte_reads": fp.OneByte, "trace_tail": w.TraceTail(40)}
	}
	if !w.WaitIdle(sim.StepTimeout) {
		wedged, report := w.Diagnose(1500 * time.Millisecond)
		if wedged {
			c.Violate("read-routine-stuck", "read routine did not consume the stream", map[string]any{"report": report, "d": detail()})
		} else {
			c.Inconclusive("stream consumption slow")
		}
		c.Spoiled()
		return 0, false
	}
	w.Mu.Lock()
	conn := w.Conns[0]
	stalls = conn.StallsFired
	consumed := conn.InPos
	total := len(conn.In)
	nconn := len(w.Conns)
	out := append([]byte(nil), conn.Out...)
	for _, o := range w.Online {
		c.Violate("deadline-discipline", o, nil)
	}
	w.Mu.Unlock()
	reads := d.ReadsSnapshot()

	ok = true
	fail := func(sig, msg string) {
		ok = false
		c.Violate(sig, label+": "+msg, detail())
	}
	// no ReadSlices error on a well-formed stream
	ri := 0
	for _, r := range reads {
		if r.Err != nil && !r.Big {
			fail("error-on-wellformed-stream", fmt.Sprintf("ReadSlices failed with %q", r.Err))
			break
		}
		if ri >= len(s.Returns) {
			fail("unexpected-message", fmt.Sprintf("ReadSlices returned a message beyond the %d sent (topic %q)", len(s.Returns), r.Topic))
			break
		}
		want := s.Returns[ri]
		ri++
		if r.Topic != want.Topic {
			fail("topic-differs", fmt.Sprintf("message %d: topic %q, want %q", ri, r.Topic, want.Topic))
			break
		}
		if want.Big != r.Big {
			fail("big-classification", fmt.Sprintf("message %d of %d bytes: BigMessage=%v, want %v", ri, len(want.Payload), r.Big, want.Big))
			break
		}
		if r.Big {
			if r.BigSize != len(want.Payload) {
				fail("big-size-differs", fmt.Sprintf("message %d: BigMessage.Size %d, want %d", ri, r.BigSize, len(want.Payload)))
				break
			}
			if r.BigRead {
				if r.BigErr != nil {
					fail("readall-failed", fmt.Sprintf("message %d: ReadAll: %v", ri, r.BigErr))
					break
				}
				if !bytes.Equal(r.Msg, want.Payload) {
					fail("big-payload-differs", fmt.Sprintf("message %d: ReadAll content differs (%d bytes)", ri, len(r.Msg)))
					break
				}
			}
			continue
		}
		if !bytes.Equal(r.Msg, want.Payload) {
			fail("payload-differs", fmt.Sprintf("message %d: payload differs (got %d bytes, want %d)", ri, len(r.Msg), len(want.Payload)))
			break
		}
	}
	if ok && ri != len(s.Returns) {
		fail("messages-missing", fmt.Sprintf("ReadSlices returned %d messages, %d were sent (consumed %d of %d bytes, %d connections)", ri, len(s.Returns), consumed, total, nconn))
	}
	// acknowledgements: same bytes for every fragmentation
	if ok {
		pk, rest, perr := wire.ParseStream(out, true)
		if perr != nil || len(rest) != 0 {
			fail("malformed-outbound-stream", fmt.Sprintf("client wrote a malformed stream: %v rest=%x", perr, rest))
		} else {
			var got [][]byte
			for _, p := range pk {
				switch p.Type {
				case wire.PUBACK, wire.PUBREC, wire.PUBREL, wire.PUBCOMP:
					got = append(got, p.Raw)
				}
			}
			if len(got) != len(s.Acks) {
				fail("acknowledgements-differ", fmt.Sprintf("client wrote %d acknowledgements, want %d", len(got), len(s.Acks)))
			} else {
				for i := range got {
					if !bytes.Equal(got[i], s.Acks[i]) {
						fail("acknowledgements-differ", fmt.Sprintf("acknowledgement %d is %x, want %x", i, got[i], s.Acks[i]))
						break
					}
				}
			}
		}
	}
	_ = prePackets
	if !d.CloseAndWait() {
		c.Spoiled()
	}
	var rerr error
	for _, r := range d.ReadsSnapshot() {
		if r.Err != nil && !r.Big && !errors.Is(r.Err, mqtt.ErrClosed) {
			rerr = r.Err
		}
	}
	_ = rerr
	return stalls, ok
}

func init() {
	run.Register(&run.Prop{
		ID:    "C06",
		Level: "exploration",
		Cases: func(tier string) int {
			if tier == "thorough" {
				return 1600
			}
			return 96
		},
		ChunkSize:   4,
		Rule:        "each case draws one well-formed broker stream (PUBLISH at three levels with topic 1-20 B and payload 0 … read-buffer-size±2 … 3 buffers, retransmitted QoS 2 duplicates, PUBREL known/unknown, unsolicited PINGRESP/SUBACK/UNSUBACK, PUBACK/PUBREC/PUBCOMP for publishes really made) at a small read buffer (VerifSetReadBufSize 64-512; every 8th case at the real 128 KiB with payloads up to 3 buffers, every 16th with a message whose remaining length lies at the step from three to four length bytes, 2,097,151 and up) and feeds it to a fresh client once per fragmentation: EVERY single cut position, EVERY single cut followed by a deadline expiry (fired by the connection only when a byte arrived since the deadline was armed), 1-byte reads, the whole stream at once (CONNACK coalesced), and PRNG multi-cut plans; big messages are read or skipped by plan. Oracle: returned (topic, payload, BigMessage.Topic/Size/ReadAll) equal the reference list and the acknowledgement bytes written equal the reference sequence, so all fragmentations agree. Non-trivial: a packet delivered in >= 2 reads; distinct by (buffer size, cut position relative to packet fields, stall).",
		Assumptions: []string{"deadline expiries are reported by a Read call of their own (n = 0), as net.Conn implementations do", "topics stay below buffer size - 8 as the package documents for BigMessage"},
		Run: func(c *run.Ctx) {
			real128k := c.Case%8 == 7
			buf := []int{64, 65, 100, 128, 200, 256, 512}[c.Rng.Intn(7)]
			n := 3 + c.Rng.Intn(6)
			if real128k {
				buf = 128 * 1024
				n = 2 + c.Rng.Intn(3)
			}
			defer mqtt.VerifSetReadBufSize(128 * 1024)
			s := genInStream(c.Rng, buf, n, c.Rng.Intn(2) == 0)
			if c.Case%16 == 15 {
				// a remaining length at the step from three to four bytes
				s.appendPublish(c.Rng, 0xfffe, 2097151+[]int{0, 1, 2, 70000}[c.Rng.Intn(4)])
			}
			total := 4 + len(s.Bytes)
			bigs := 0
			for _, r := range s.Returns {
				if r.Big {
					bigs++
				}
			}
			runs, stallsFired, split := 0, 0, 0
			do := func(fp fragPlan, label string) bool {
				fp.SkipBigs = map[int]bool{}
				for i := 0; i < bigs; i++ {
					if c.Rng.Intn(3) == 0 {
						fp.SkipBigs[i] = true
					}
				}
				st, ok := runInStream(c, s, fp, label)
				runs++
				stallsFired += st
				return ok
			}
			if !do(fragPlan{}, "whole stream in one read") {
				return
			}
			if total <= 1<<20 && !do(fragPlan{OneByte: true}, "1-byte reads") {
				return
			}
			// positions: all for small streams, the interesting ones for large
			var pos []int
			if total <= 4096 {
				for p := 1; p < total; p++ {
					pos = append(pos, p)
				}
			} else {
				seen := map[int]bool{}
				addp := func(p int) {
					if p > 0 && p < total && !seen[p] {
						seen[p] = true
						pos = append(pos, p)
					}
				}
				start := 4
				for _, b := range s.Bounds {
					end := 4 + b
					for _, d := range []int{0, 1, 2, 3, 4, 5, 6, 7, 8, 9, 10, 30} {
						addp(start + d)
						addp(end - d)
					}
					for k := 1; k <= 3; k++ {
						for _, d := range []int{-2, -1, 0, 1, 2} {
							addp(start + k*buf + d)
							addp(start + k*buf + 5 + d)
						}
					}
					start = end
				}
				for i := 0; i < 30; i++ {
					addp(1 + c.Rng.Intn(total-1))
				}
			}
			shapes := map[string]bool{}
			relPos := func(p int) string {
				start := 4
				if p <= 4 {
					return "connack"
				}
				for _, b := range s.Bounds {
					end := 4 + b
					if p <= end {
						off := p - start
						switch {
						case p == end:
							return "packet-end"
						case off <= 5:
							return fmt.Sprintf("hdr+%d", off)
						case end-p <= 3:
							return fmt.Sprintf("end-%d", end-p)
						case off > buf-3 && off < buf+8:
							return fmt.Sprintf("buf%+d", off-buf)
						default:
							return "body"
						}
					}
					start = end
				}
				return "?"
			}
			for _, p := range pos {
				for _, stall := range []bool{false, true} {
					if stall && p < 4 {
						// the handshake applies one deadline to the whole CONNACK by
						// design; an expiry inside it is a failed connect (C18)
						continue
					}
					fp := fragPlan{Cuts: map[int]bool{p: true}}
					label := fmt.Sprintf("one cut after inbound byte %d (%s)", p, relPos(p))
					if stall {
						fp.Stalls = map[int]bool{p: true}
						label += " followed by a deadline expiry"
					}
					if !do(fp, label) {
						return
					}
					split++
					shapes[fmt.Sprintf("buf=%d|%s|stall=%v", buf, relPos(p), stall)] = true
				}
			}
			for i := 0; i < 6; i++ {
				fp := fragPlan{Cuts: map[int]bool{}, Stalls: map[int]bool{}}
				k := 2 + c.Rng.Intn(8)
				var lab []string
				for j := 0; j < k; j++ {
					p := 1 + c.Rng.Intn(total-1)
					fp.Cuts[p] = true
					if p >= 4 && c.Rng.Intn(2) == 0 {
						fp.Stalls[p] = true
					}
					lab = append(lab, fmt.Sprint(p))
				}
				if !do(fp, "cuts after bytes "+strings.Join(lab, ",")) {
					return
				}
			}
			c.Count("fragmentations_run", runs)
			c.Count("progress_making_expiries_fired", stallsFired)
			c.Count("streams", 1)
			c.Count("stream_bytes", total)
			c.Count("big_messages_in_streams", bigs)
			for sh := range shapes {
				c.Trigger(sh)
			}
			c.Sample(map[string]any{"buffer_size": buf, "stream": s.Desc, "fragmentations": runs, "expiries_fired": stallsFired})
		},
	})
}
