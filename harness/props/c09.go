package props

import (
	"bytes"
	"errors"
	"fmt"
	"net"
	"strings"
	"time"

	"github.com/pascaldekloe/mqtt"

	"verif/run"
	"verif/sim"
	"verif/wire"
)

type strCase struct {
	Name  string
	S     string
	Valid bool // as an MQTT string; topics and filters need non-empty on top
}

var strCases = func() []strCase {
	rep := func(s string, n int) string { return strings.Repeat(s, n)[:n] }
	return []strCase{
		{"ascii", "a/b", true},
		{"one", "x", true},
		{"wildcards", "+/#", true},
		{"len127", rep("t", 127), true},
		{"len128", rep("u", 128), true},
		{"len65535", rep("v", 65535), true},
		{"latin", "café", true},
		{"euro", "€/x", true},
		{"astral", "\U0001F600", true},
		{"control", "a\x01b\x7f", true},
		{"nonchar-ffff", "￿", true},
		{"nonchar-fdd0", "﷐x", true},
		{"max-rune", "\U0010ffff", true},
		{"replacement-char", "\ufffd", true}, // a literal U+FFFD is well-formed
		{"replacement-inside", "a\ufffdb", true},
		{"bom", "\ufeff/x", true},
		{"two-byte-min", "\u0080", true},
		{"two-byte-max", "\u07ff", true},
		{"three-byte-min", "\u0800", true},
		{"before-surrogates", "\ud7ff", true},
		{"after-surrogates", "\ue000", true},
		{"four-byte-min", "\U00010000", true},
		{"empty", "", true},
		{"len65536", rep("w", 65536), false},
		{"nul", "\x00", false},
		{"nul-inside", "a\x00b", false},
		{"nul-after-multibyte", "caf\u00e9\x00", false},
		{"nul-after-astral", "\U0001F600/\x00x", false},
		{"nul-last", "topic\x00", false},
		{"invalid-after-multibyte", "\u00e9\xff", false},
		{"surrogate-after-multibyte", "\u20ac\xed\xa0\x80", false},
		{"overlong-nul", "\xc0\x80", false},
		{"overlong-3", "\xe0\x80\xaf", false},
		{"overlong-4", "\xf0\x80\x80\xaf", false},
		{"surrogate-hi", "\xed\xa0\x80", false},
		{"surrogate-lo", "x\xed\xbf\xbf", false},
		{"beyond-10ffff", "\xf4\x90\x80\x80", false},
		{"truncated-2", "ab\xc3", false},
		{"truncated-3", "\xe2\x82", false},
		{"truncated-4", "\xf0\x9f\x98", false},
		{"stray-continuation", "\x80", false},
		{"ff", "a\xffb", false},
		{"five-byte", "\xf8\x88\x80\x80\x80", false},
	}
}()

// c09SlotProbe: denied subscribe and unsubscribe requests of every kind,
// including the ones refused for their total size, must not use up a request
// slot: afterwards as many requests fit at once as on a fresh client.
func c09SlotProbe(c *run.Ctx) {
	x := newC09Client(c)
	if x == nil {
		return
	}
	defer x.close()
	long := strings.Repeat("f", 65535)
	oversize := make([]string, 4097) // 4097 x (2+65535) bytes exceed the 268,435,455 byte packet limit
	for i := range oversize {
		oversize[i] = long
	}
	type denial struct {
		name string
		call func() error
	}
	denials := []denial{
		{"Unsubscribe(total size over the packet limit)", func() error { return x.cl.Unsubscribe(nil, oversize...) }},
		{"Subscribe(total size over the packet limit)", func() error { return x.cl.Subscribe(nil, oversize...) }},
		{"Subscribe()", func() error { return x.cl.Subscribe(nil) }},
		{"Unsubscribe()", func() error { return x.cl.Unsubscribe(nil) }},
		{"Subscribe(valid, NUL inside)", func() error { return x.cl.Subscribe(nil, "ok", "a\x00b") }},
		{"Unsubscribe(valid, empty)", func() error { return x.cl.Unsubscribe(nil, "ok", "") }},
		{"SubscribeLimitAtMostOnce(65536 bytes)", func() error { return x.cl.SubscribeLimitAtMostOnce(nil, long+"x") }},
		{"SubscribeLimitAtLeastOnce(surrogate)", func() error { return x.cl.SubscribeLimitAtLeastOnce(nil, "\xed\xa0\x80") }},
	}
	m := x.mark()
	for _, d := range denials {
		err := d.call()
		if err == nil || !mqtt.IsDeny(err) {
			x.violate("invalid-argument-not-denied", fmt.Sprintf("%s: got %v, want an IsDeny error", d.name, err), nil)
			return
		}
	}
	if pk, rest, ops, _ := x.since(m); len(pk) != 0 || len(rest) != 0 || len(ops) != 0 {
		x.violate("denied-request-left-trace", fmt.Sprintf("denied subscribe/unsubscribe requests: %d packets, %d bytes, %d store operations", len(pk), len(rest), len(ops)), nil)
		return
	}
	// a reference: how many requests fit at once on a client that never saw a denial
	fit := func(y *c09Client, whileFull func()) (accepted, refused int, other error) {
		y.w.Mu.Lock()
		y.w.Broker.AckPolicy = func(b *sim.Broker, cn *sim.Conn, p *wire.Packet, reply []byte) string { return "hold" }
		y.w.Mu.Unlock()
		const n = 520
		errs := make(chan error, n)
		quit := make(chan struct{})
		for i := 0; i < n; i++ {
			f := fmt.Sprintf("slot/%d", i)
			go func(i int) {
				if i%2 == 0 {
					errs <- y.cl.Subscribe(quit, f)
				} else {
					errs <- y.cl.Unsubscribe(quit, f)
				}
			}(i)
		}
		// each request either gets refused at once or sits waiting for its answer
		written := func() int {
			k := 0
			for _, e := range y.w.Trace {
				if e.Kind == "broker.recv" && (strings.HasPrefix(e.Note, "SUBSCRIBE") || strings.HasPrefix(e.Note, "UNSUBSCRIBE")) {
					k++
				}
			}
			return k
		}
		var early []error
		y.w.WaitUntil(2*sim.StepTimeout, func() bool {
			for {
				select {
				case e := <-errs:
					early = append(early, e)
					continue
				default:
				}
				break
			}
			return written()+len(early) >= n
		})
		y.w.Mu.Lock()
		accepted = written()
		y.w.Mu.Unlock()
		for _, e := range early {
			if errors.Is(e, mqtt.ErrMax) {
				refused++
			} else if e != nil {
				other = e
			}
		}
		if whileFull != nil {
			whileFull()
		}
		close(quit)
		for i := len(early); i < n; i++ {
			select {
			case <-errs:
			case <-time.After(sim.StepTimeout):
			}
		}
		return
	}
	ref := newC09Client(c)
	if ref == nil {
		return
	}
	refAccepted, _, refErr := fit(ref, nil)
	ref.close()
	// with every slot taken an invalid argument is still an invalid argument
	accepted, refused, err := fit(x, func() {
		for _, d := range denials {
			if e := d.call(); e == nil || !mqtt.IsDeny(e) {
				x.violate("invalid-argument-not-denied", fmt.Sprintf("%s with all request slots taken: got %v, want an IsDeny error", d.name, e), nil)
				return
			}
		}
		c.Count("denials_with_all_slots_taken", len(denials))
	})
	if refErr != nil || err != nil {
		c.Inconclusive(fmt.Sprintf("slot probe met an unexpected error: %v / %v", refErr, err))
		return
	}
	if accepted < refAccepted {
		x.violate("denied-request-consumed-slot", fmt.Sprintf("after %d denied subscribe/unsubscribe requests only %d requests fit at once (%d refused with ErrMax); a fresh client takes %d", len(denials), accepted, refused, refAccepted), nil)
	}
	c.Count("slot_probe_requests_in_flight", accepted)
	c.Count("slot_probe_denials", len(denials))
	c.Trigger(fmt.Sprintf("slot-probe|fresh=%d|after-denials=%d", refAccepted, accepted))
	c.Sample(map[string]any{"scenario": "slot probe after denials", "denials": len(denials), "fit_on_fresh_client": refAccepted, "fit_after_denials": accepted})
}

// nValidStrCases counts the leading valid, non-empty classes.
var nValidStrCases = func() int {
	for i, sc := range strCases {
		if !sc.Valid || sc.S == "" {
			return i
		}
	}
	return len(strCases)
}()

// c09Client is a connected client with capacity 1 per level for probing.
type c09Client struct {
	failed bool // a violation was recorded; the client state may be off
	c      *run.Ctx
	w      *sim.World
	d      *sim.Driver
	cl     *mqtt.Client
	seq    int
}

func newC09Client(c *run.Ctx) *c09Client {
	w := sim.NewWorld(c.Rng.Int63())
	sim.InstallHooks(w)
	w.DataCap = 32
	cfg := mqtt.Config{Dialer: w.Dialer(), PauseTimeout: time.Hour, ReconnectWaitMin: time.Microsecond, AtLeastOnceMax: 1, ExactlyOnceMax: 1}
	cl, err := mqtt.InitSession("c09", w.Store, &cfg)
	if err != nil {
		c.Violate("init-failed", err.Error(), nil)
		return nil
	}
	x := &c09Client{c: c, w: w, cl: cl, d: sim.NewDriver(w, cl, nil, 0)}
	x.d.StartReader()
	if !w.WaitUntil(sim.StepTimeout, func() bool { return w.PointCountLocked("connect.resent") > 0 }) {
		c.Inconclusive("connect slow")
		return nil
	}
	w.WaitIdle(sim.StepTimeout)
	return x
}

func (x *c09Client) violate(sig, msg string, detail any) {
	x.failed = true
	x.c.Violate(sig, msg, detail)
}

func (x *c09Client) close() {
	if !x.d.CloseAndWait() {
		x.c.Spoiled()
	}
	x.w.Shutdown()
}

type wireMark struct {
	out, ops int
}

func (x *c09Client) mark() wireMark {
	x.w.Mu.Lock()
	defer x.w.Mu.Unlock()
	return wireMark{len(x.w.Cur().Out), len(x.w.Store.Ops)}
}

// since returns the packets written and the store operations done after m.
func (x *c09Client) since(m wireMark) ([]*wire.Packet, []byte, []sim.StoreOp, error) {
	x.w.Mu.Lock()
	defer x.w.Mu.Unlock()
	b := x.w.Cur().Out[m.out:]
	pk, rest, err := wire.ParseStream(b, true)
	return pk, rest, x.w.Store.Ops[m.ops:], err
}

// callKind enumerates the request methods.
var pubMethods = []string{"Publish", "PublishRetained", "PublishAtLeastOnce", "PublishAtLeastOnceRetained", "PublishExactlyOnce", "PublishExactlyOnceRetained"}

func (x *c09Client) publish(method string, payload []byte, topic string) error {
	var err error
	switch method {
	case "Publish":
		err = x.cl.Publish(nil, payload, topic)
	case "PublishRetained":
		err = x.cl.PublishRetained(nil, payload, topic)
	case "PublishAtLeastOnce":
		_, err = x.cl.PublishAtLeastOnce(payload, topic)
	case "PublishAtLeastOnceRetained":
		_, err = x.cl.PublishAtLeastOnceRetained(payload, topic)
	case "PublishExactlyOnce":
		_, err = x.cl.PublishExactlyOnce(payload, topic)
	case "PublishExactlyOnceRetained":
		_, err = x.cl.PublishExactlyOnceRetained(payload, topic)
	}
	return err
}

func pubLevel(method string) (qos byte, retain bool) {
	switch {
	case strings.HasPrefix(method, "PublishAtLeastOnce"):
		qos = 1
	case strings.HasPrefix(method, "PublishExactlyOnce"):
		qos = 2
	}
	return qos, strings.HasSuffix(method, "Retained")
}

// settle waits until the persisted publishes completed, so capacity is back.
func (x *c09Client) settle() bool {
	ok := x.w.WaitUntil(sim.StepTimeout, func() bool {
		for k := range x.w.Store.CurrentLocked() {
			if k >= 0x8000 && k <= 0xffff {
				return false
			}
		}
		return true
	})
	x.w.WaitIdle(sim.StepTimeout)
	return ok
}

const packetMax = 268435455

// checkPublish issues one publish and compares with the reference.
func (x *c09Client) checkPublish(method string, sc strCase, payload []byte, what string) {
	_ = x.c
	qos, retain := pubLevel(method)
	size := 2 + len(sc.S) + len(payload)
	if qos != 0 {
		size += 2
	}
	valid := sc.Valid && sc.S != "" && size <= packetMax
	m := x.mark()
	err := x.publish(method, payload, sc.S)
	x.w.WaitIdle(sim.StepTimeout)
	pk, rest, ops, perr := x.since(m)
	desc := fmt.Sprintf("%s(topic %s, payload %d B) [%s]", method, sc.Name, len(payload), what)
	if !valid {
		if err == nil || !mqtt.IsDeny(err) {
			x.violate("invalid-argument-not-denied", fmt.Sprintf("%s: got %v, want an IsDeny error", desc, err), nil)
		}
		if len(pk) != 0 || len(rest) != 0 {
			x.violate("denied-request-wrote-bytes", fmt.Sprintf("%s: %d packets and %d stray bytes written", desc, len(pk), len(rest)), nil)
		}
		for _, op := range ops {
			x.violate("denied-request-touched-persistence", fmt.Sprintf("%s: %s(%#x) on the Persistence", desc, op.Op, op.Key), nil)
			break
		}
		if err == nil {
			x.settle()
		}
		// capacity probe: the single slot of the level is still free
		if qos != 0 {
			m2 := x.mark()
			perr := x.publish(method, []byte("probe"), "probe/"+fmt.Sprint(x.seq))
			x.seq++
			if perr != nil {
				x.violate("denied-request-consumed-capacity", fmt.Sprintf("%s: a following valid publish at maximum 1 failed: %v", desc, perr), nil)
			}
			x.settle()
			_ = m2
		}
		return
	}
	if err != nil {
		sig := "valid-argument-refused"
		if mqtt.IsDeny(err) {
			sig = "valid-argument-denied"
		}
		x.violate(sig, fmt.Sprintf("%s: %v", desc, err), nil)
		return
	}
	if perr != nil {
		x.violate("malformed-packet-emitted", fmt.Sprintf("%s: %v", desc, perr), nil)
		return
	}
	var found *wire.Packet
	for _, p := range pk {
		if p.Type == wire.PUBLISH && p.Topic == sc.S {
			found = p
		}
	}
	if found == nil {
		x.violate("packet-missing", fmt.Sprintf("%s: no PUBLISH with that topic on the wire (%d packets)", desc, len(pk)), nil)
		return
	}
	if found.QoS != qos || found.Retain != retain || found.Dup || !bytes.Equal(found.Payload, payload) {
		x.violate("packet-differs-from-request", fmt.Sprintf("%s: decoded %s", desc, found), nil)
	}
	want := wire.Publish(sc.S, payload, qos, found.ID, false, retain)
	if !bytes.Equal(want, found.Raw) {
		x.violate("packet-differs-from-reference-encoding", fmt.Sprintf("%s: header %x, want %x", desc, head(found.Raw, 8), head(want, 8)), nil)
	}
	if qos != 0 {
		if !x.settle() {
			x.violate("publish-never-completed", desc, nil)
		}
	}
}

func (x *c09Client) checkSubscribe(method string, filters []strCase) {
	_ = x.c
	valid := len(filters) > 0
	var fs []string
	var names []string
	for _, f := range filters {
		fs = append(fs, f.S)
		names = append(names, f.Name)
		if !f.Valid || f.S == "" {
			valid = false
		}
	}
	desc := fmt.Sprintf("%s(%s)", method, strings.Join(names, ","))
	m := x.mark()
	var err error
	wantQoS := byte(2)
	// A denial happens before anything can block. A request that should be
	// denied and is taken on instead would wait for a response that may never
	// come: it is given a quit which fires long after any denial is through,
	// so that the verdict names the request instead of a hang.
	var quit chan struct{}
	if !valid {
		quit = make(chan struct{})
		t := time.AfterFunc(10*time.Second, func() { close(quit) })
		defer t.Stop()
	}
	switch method {
	case "Subscribe":
		err = x.cl.Subscribe(quit, fs...)
	case "SubscribeLimitAtMostOnce":
		err = x.cl.SubscribeLimitAtMostOnce(quit, fs...)
		wantQoS = 0
	case "SubscribeLimitAtLeastOnce":
		err = x.cl.SubscribeLimitAtLeastOnce(quit, fs...)
		wantQoS = 1
	case "Unsubscribe":
		err = x.cl.Unsubscribe(quit, fs...)
	}
	x.w.WaitIdle(sim.StepTimeout)
	pk, rest, ops, perr := x.since(m)
	if !valid {
		if err == nil || !mqtt.IsDeny(err) {
			x.violate("invalid-argument-not-denied", fmt.Sprintf("%s: got %v, want an IsDeny error", desc, err), nil)
		}
		if len(pk) != 0 || len(rest) != 0 || len(ops) != 0 {
			x.violate("denied-request-left-trace", fmt.Sprintf("%s: %d packets, %d bytes, %d store operations", desc, len(pk), len(rest), len(ops)), nil)
		}
		return
	}
	if err != nil {
		sig := "valid-argument-refused"
		if mqtt.IsDeny(err) {
			sig = "valid-argument-denied"
		}
		x.violate(sig, fmt.Sprintf("%s: %v", desc, err), nil)
		return
	}
	if perr != nil {
		x.violate("malformed-packet-emitted", fmt.Sprintf("%s: %v", desc, perr), nil)
		return
	}
	wantType := byte(wire.SUBSCRIBE)
	if method == "Unsubscribe" {
		wantType = wire.UNSUBSCRIBE
	}
	if len(pk) != 1 || pk[0].Type != wantType {
		x.violate("packet-missing", fmt.Sprintf("%s: wrote %d packets", desc, len(pk)), nil)
		return
	}
	p := pk[0]
	if strings.Join(p.Filters, "\x00|") != strings.Join(fs, "\x00|") {
		x.violate("packet-differs-from-request", fmt.Sprintf("%s: filters differ", desc), nil)
	}
	for _, q := range p.QoSs {
		if q != wantQoS {
			x.violate("packet-differs-from-request", fmt.Sprintf("%s: requested level %d, want %d", desc, q, wantQoS), nil)
		}
	}
	lo, hi := uint16(0x6000), uint16(0x7fff)
	if method == "Unsubscribe" {
		lo, hi = 0x4000, 0x5fff
	}
	if p.ID < lo || p.ID > hi {
		x.violate("identifier-out-of-range", fmt.Sprintf("%s: identifier %#x", desc, p.ID), nil)
	}
}

// configCase builds a Config and tells whether it is valid.
type configCase struct {
	Desc     string
	ClientID strCase
	Cfg      mqtt.Config
	Valid    bool
	Want     wire.Connect
}

func genConfig(c *run.Ctx) configCase {
	r := c.Rng
	var cc configCase
	cc.Valid = true
	pickStr := func(pInvalid float64, allowEmpty bool) strCase {
		for {
			s := strCases[r.Intn(len(strCases))]
			if !s.Valid && r.Float64() > pInvalid {
				continue
			}
			if s.S == "" && !allowEmpty {
				continue
			}
			return s
		}
	}
	cc.ClientID = pickStr(0.1, true)
	if !cc.ClientID.Valid {
		cc.Valid = false
	}
	cfg := &cc.Cfg
	cfg.KeepAlive = []uint16{0, 1, 60, 65535}[r.Intn(4)]
	cfg.CleanSession = r.Intn(2) == 0
	want := &cc.Want
	want.ClientID, want.KeepAlive, want.CleanSession = cc.ClientID.S, cfg.KeepAlive, cfg.CleanSession
	var parts []string
	switch r.Intn(5) {
	case 0: // no credentials
	case 1:
		u := pickStr(0.15, false)
		cfg.UserName = u.S
		want.HasUser, want.User = true, u.S
		if !u.Valid {
			cc.Valid = false
		}
		parts = append(parts, "user="+u.Name)
	case 2:
		u := pickStr(0.05, false)
		cfg.UserName = u.S
		cfg.Password = []byte("secret")
		want.HasUser, want.User, want.HasPassword, want.Password = true, u.S, true, cfg.Password
		if !u.Valid {
			cc.Valid = false
		}
		parts = append(parts, "user="+u.Name+"+password")
	case 3:
		cfg.Password = make([]byte, []int{0, 1, 65535, 65536}[r.Intn(4)])
		want.HasUser, want.User, want.HasPassword, want.Password = true, "", true, cfg.Password
		if len(cfg.Password) > 65535 {
			cc.Valid = false
		}
		parts = append(parts, fmt.Sprintf("password-only(%d)", len(cfg.Password)))
	case 4:
		cfg.UserName = "u"
		cfg.Password = []byte{}
		want.HasUser, want.User, want.HasPassword, want.Password = true, "u", true, []byte{}
		parts = append(parts, "user+empty-password")
	}
	if r.Intn(2) == 0 {
		t := pickStr(0.15, true)
		cfg.Will.Topic = t.S
		cfg.Will.Message = make([]byte, []int{0, 1, 100, 65535, 65536}[r.Intn(5)])
		cfg.Will.Retain = r.Intn(2) == 0
		cfg.Will.AtLeastOnce = r.Intn(2) == 0
		cfg.Will.ExactlyOnce = r.Intn(3) == 0
		want.HasWill, want.WillTopic, want.WillMessage, want.WillRetain = true, t.S, cfg.Will.Message, cfg.Will.Retain
		switch {
		case cfg.Will.ExactlyOnce:
			want.WillQoS = 2
		case cfg.Will.AtLeastOnce:
			want.WillQoS = 1
		}
		if !t.Valid || t.S == "" || len(cfg.Will.Message) > 65535 {
			cc.Valid = false
		}
		parts = append(parts, fmt.Sprintf("will(topic=%s,msg=%d,q%d,ret=%v)", t.Name, len(cfg.Will.Message), want.WillQoS, cfg.Will.Retain))
	}
	if !want.HasWill && r.Intn(3) == 0 {
		// a nil Message disables the Will, whatever its options say
		cfg.Will.Topic = []string{"", "w/t"}[r.Intn(2)]
		cfg.Will.Retain = r.Intn(2) == 0
		cfg.Will.AtLeastOnce = r.Intn(2) == 0
		cfg.Will.ExactlyOnce = !cfg.Will.Retain && !cfg.Will.AtLeastOnce || r.Intn(3) == 0
		parts = append(parts, fmt.Sprintf("will-options-without-message(ret=%v,q1=%v,q2=%v)", cfg.Will.Retain, cfg.Will.AtLeastOnce, cfg.Will.ExactlyOnce))
	}
	cc.Desc = fmt.Sprintf("clientID=%s keepalive=%d clean=%v %s", cc.ClientID.Name, cfg.KeepAlive, cfg.CleanSession, strings.Join(parts, " "))
	return cc
}

// checkConfig runs a constructor and the first CONNECT.
func checkConfig(c *run.Ctx, cc configCase) {
	w := sim.NewWorld(c.Rng.Int63())
	defer w.Shutdown()
	sim.InstallHooks(w)
	w.DataCap = 32
	cfg := cc.Cfg
	cfg.Dialer = w.Dialer()
	cfg.PauseTimeout = time.Hour
	volatile := c.Rng.Intn(3) == 0
	var cl *mqtt.Client
	var err error
	ctor := "InitSession"
	if volatile {
		ctor = "VolatileSession"
		cl, err = mqtt.VolatileSession(cc.ClientID.S, &cfg)
	} else {
		cl, err = mqtt.InitSession(cc.ClientID.S, w.Store, &cfg)
	}
	desc := ctor + ": " + cc.Desc
	if !cc.Valid {
		if err == nil {
			c.Violate("illegal-config-accepted", desc, nil)
			cl.Close()
		}
		w.Mu.Lock()
		for _, op := range w.Store.Ops {
			if op.Op == "save" || op.Op == "delete" {
				c.Violate("refused-constructor-touched-persistence", fmt.Sprintf("%s: %s(%#x)", desc, op.Op, op.Key), nil)
				break
			}
		}
		w.Mu.Unlock()
		// the same refusal from AdoptSession, on a session in need of repair:
		// a constructor that refuses its Config repairs nothing
		w2 := sim.NewWorld(c.Rng.Int63())
		defer w2.Shutdown()
		cfg2 := cc.Cfg
		cfg2.Dialer = w2.Dialer()
		cfg2.PauseTimeout = time.Hour
		var id []byte
		for _, b := range mqtt.VerifEncodeValue(net.Buffers{[]byte("c09-adopt")}, 1) {
			id = append(id, b...)
		}
		w2.Store.Plant(map[uint][]byte{0: id, 0x8000: []byte("not a record at all"), 0x8001: []byte("nor is this one")})
		cl2, _, fatal := mqtt.AdoptSession(w2.Store, &cfg2)
		if fatal == nil {
			// (the Config is fine; it was the client identifier that got refused)
			cl2.Close()
			return
		}
		w2.Mu.Lock()
		for _, op := range w2.Store.Ops {
			if op.Op == "save" || op.Op == "delete" {
				c.Violate("refused-constructor-touched-persistence", fmt.Sprintf("AdoptSession: %s: refused with %q after %s(%#x)", cc.Desc, fatal, op.Op, op.Key), nil)
				break
			}
		}
		w2.Mu.Unlock()
		c.Count("adoptions_refused_for_their_config", 1)
		return
	}
	if err != nil {
		c.Violate("valid-config-refused", fmt.Sprintf("%s: %v", desc, err), nil)
		return
	}
	d := sim.NewDriver(w, cl, nil, 0)
	d.StartReader()
	w.WaitUntil(sim.StepTimeout, func() bool { return w.PointCountLocked("connect.resent") > 0 })
	w.WaitIdle(sim.StepTimeout)
	w.Mu.Lock()
	var out []byte
	if cn := w.Cur(); cn != nil {
		out = append(out, cn.Out...)
	}
	w.Mu.Unlock()
	pk, _, perr := wire.ParseStream(out, true)
	switch {
	case perr != nil:
		c.Violate("malformed-packet-emitted", fmt.Sprintf("%s: %v", desc, perr), nil)
	case len(pk) == 0 || pk[0].Type != wire.CONNECT:
		c.Violate("packet-missing", desc+": no CONNECT", nil)
	default:
		got := pk[0].Connect
		w2 := cc.Want
		if got.ClientID != w2.ClientID || got.CleanSession != w2.CleanSession || got.KeepAlive != w2.KeepAlive ||
			got.HasWill != w2.HasWill || got.WillTopic != w2.WillTopic || !bytes.Equal(got.WillMessage, w2.WillMessage) || got.WillQoS != w2.WillQoS || got.WillRetain != w2.WillRetain ||
			got.HasUser != w2.HasUser || got.User != w2.User || got.HasPassword != w2.HasPassword || !bytes.Equal(got.Password, w2.Password) {
			c.Violate("connect-differs-from-config", fmt.Sprintf("%s: decoded clean=%v keepalive=%d will=%v/%q/q%d/ret=%v user=%v/%q password=%v", desc, got.CleanSession, got.KeepAlive, got.HasWill, got.WillTopic, got.WillQoS, got.WillRetain, got.HasUser, got.User, got.HasPassword), nil)
		}
		if ref := wire.EncodeConnect(&w2); !bytes.Equal(ref, pk[0].Raw) {
			c.Violate("packet-differs-from-reference-encoding", desc+": CONNECT bytes differ from the reference encoder", nil)
		}
	}
	if !d.CloseAndWait() {
		c.Spoiled()
	}
}

func init() {
	run.Register(&run.Prop{
		ID:    "C09",
		Level: "exploration",
		Cases: func(tier string) int {
			if tier == "thorough" {
				return 3000
			}
			return 1000
		},
		ChunkSize:   10,
		Rule:        "argument generator = boundary lists x PRNG: 43 string classes (lengths 0,1,127,128,65535,65536; surrogates, overlongs of 2/3/4 bytes, truncated sequences, > U+10FFFF, stray continuation, 0xFF, five-byte form, U+0000 alone, embedded, last, and behind multi-byte characters; ill-formed bytes behind well-formed multi-byte characters; valid extremes: noncharacters, controls, U+10FFFF, a literal U+FFFD, U+FEFF, the first and last code point of each encoded length and both neighbours of the surrogate range) for topics, filters, client identifier, user name, will topic; payload sizes that put the remaining length on each side of 127/128, 16383/16384, 2097151/2097152 and (denial side) 268435455; 1-4 filters with each level limit; Config: will on/off x level x retain x message size, credentials five ways, keep-alive 0/1/60/65535, clean session. Every case issues ~40 calls on a connected client with a maximum of ONE in-flight transfer per level. Oracle: validity by a reference predicate written from the specification; valid => accepted and the packet found on the wire decodes strictly (independent codec) to the requested fields and equals the reference encoding; invalid => IsDeny (or constructor error), no byte written, no Persistence operation, and a following valid publish still fits the single slot; one case denies subscribe/unsubscribe requests of every kind (empty, ill-formed, 65,536 bytes, total size beyond the packet limit with 4,097 filters) and then counts how many requests fit at once, against a fresh client. Non-trivial: every call; distinct by (method, argument class, size class).",
		Assumptions: []string{"the 268435455-byte packet is exercised on the denial side in both tiers; accepting a packet of exactly that size is exercised once per run (Publish at level 0)", "gray zone not asserted: an invalid will topic while no will message is set"},
		Run: func(c *run.Ctx) {
			if c.Case == 2 || c.Tier == "thorough" && c.Case%50 == 2 {
				c09SlotProbe(c)
				return
			}
			if c.Case%4 == 3 {
				// Config cases
				for i := 0; i < 25; i++ {
					cc := genConfig(c)
					checkConfig(c, cc)
					c.Trigger(fmt.Sprintf("config|valid=%v|will=%v|user=%v|pw=%v|id=%s", cc.Valid, cc.Want.HasWill, cc.Want.HasUser, cc.Want.HasPassword, cc.ClientID.Name))
					if i == 0 {
						c.Sample(map[string]any{"config": cc.Desc, "valid": cc.Valid})
					}
				}
				c.Count("config_cases", 25)
				return
			}
			x := newC09Client(c)
			if x == nil {
				return
			}
			defer x.close()
			calls := 0
			// publishes: string classes
			for i := 0; i < 14; i++ {
				sc := strCases[c.Rng.Intn(len(strCases))]
				m := pubMethods[c.Rng.Intn(len(pubMethods))]
				payload := make([]byte, []int{0, 1, 50}[c.Rng.Intn(3)])
				x.checkPublish(m, sc, payload, "string class")
				if x.failed {
					return
				}
				calls++
				c.Trigger(fmt.Sprintf("%s|%s|small", m, sc.Name))
			}
			// publishes: remaining-length boundaries
			for i := 0; i < 6; i++ {
				m := pubMethods[c.Rng.Intn(len(pubMethods))]
				qos, _ := pubLevel(m)
				over := 2 + 3
				if qos != 0 {
					over += 2
				}
				b := []int{127, 128, 16383, 16384, 2097151, 2097152}[c.Rng.Intn(6)]
				if c.Tier != "thorough" && b > 20000 && c.Rng.Intn(4) != 0 {
					b = 16384
				}
				n := b - over + c.Rng.Intn(2)
				payload := bytes.Repeat([]byte{byte(i)}, n)
				x.checkPublish(m, strCase{"abc", "a/" + string(rune('a'+i)), true}, payload, fmt.Sprintf("remaining length %d", n+over))
				if x.failed {
					return
				}
				calls++
				c.Trigger(fmt.Sprintf("%s|len-boundary-%d", m, b))
			}
			// the 256 MiB limit, denial side (nothing is copied when denied)
			if c.Case%40 == 0 {
				big := make([]byte, packetMax+8)
				for _, m := range pubMethods {
					qos, _ := pubLevel(m)
					over := 2 + 1
					if qos != 0 {
						over += 2
					}
					for _, extra := range []int{1, 2} {
						payload := big[:packetMax-over+extra]
						x.checkPublish(m, strCase{"t", "t", true}, payload, fmt.Sprintf("packet of %d bytes", packetMax+extra))
						if x.failed {
							return
						}
						calls++
						c.Trigger(fmt.Sprintf("%s|over-packet-max+%d", m, extra))
					}
				}
			}
			if c.Case == 1 {
				payload := make([]byte, packetMax-3)
				x.w.Mu.Lock()
				x.w.DataCap = 8
				x.w.Mu.Unlock()
				x.checkPublish("Publish", strCase{"t", "t", true}, payload, "packet of exactly 268435455 bytes")
				c.Trigger("Publish|exactly-packet-max")
				calls++
			}
			// subscribe and unsubscribe
			for i := 0; i < 14; i++ {
				m := []string{"Subscribe", "SubscribeLimitAtMostOnce", "SubscribeLimitAtLeastOnce", "Unsubscribe"}[c.Rng.Intn(4)]
				n := c.Rng.Intn(5)
				var fs []strCase
				anyInvalid := "valid"
				for j := 0; j < n; j++ {
					sc := strCases[c.Rng.Intn(len(strCases))]
					if c.Rng.Intn(3) != 0 {
						sc = strCases[c.Rng.Intn(nValidStrCases)] // valid ones mostly
					}
					if sc.Valid && sc.S != "" {
						sc.S += fmt.Sprintf("/%d", x.seq)
						if len(sc.S) > 65535 {
							sc.S = sc.S[len(sc.S)-65535:]
						}
						x.seq++
					}
					if !sc.Valid || sc.S == "" {
						anyInvalid = sc.Name
					}
					fs = append(fs, sc)
				}
				x.checkSubscribe(m, fs)
				if x.failed {
					return
				}
				calls++
				c.Trigger(fmt.Sprintf("%s|n=%d|%s", m, n, anyInvalid))
			}
			// PINGREQ and the client's acknowledgements decode strictly too
			if err := x.cl.Ping(nil); err != nil {
				c.Violate("ping-failed", err.Error(), nil)
			}
			x.w.Broker.Publish("in/1", []byte("q1"), 1, false)
			x.w.Broker.Publish("in/2", []byte("q2"), 2, false)
			x.w.WaitIdle(sim.StepTimeout)
			x.w.Mu.Lock()
			for _, e := range x.w.Broker.Errors {
				c.Violate("broker-saw-protocol-violation", e, nil)
			}
			var types []string
			if cn := x.w.Cur(); cn != nil {
				pk, _, err := wire.ParseStream(cn.Out, true)
				if err != nil {
					c.Violate("malformed-packet-emitted", err.Error(), nil)
				}
				seen := map[byte]bool{}
				for _, p := range pk {
					if !seen[p.Type] {
						seen[p.Type] = true
						types = append(types, wire.TypeName(p.Type))
					}
				}
			}
			x.w.Mu.Unlock()
			c.Count("calls_checked", calls)
			c.Sample(map[string]any{"calls": calls, "packet_types_decoded": strings.Join(types, " ")})
		},
	})
}
