package props

import (
	"errors"
	"fmt"
	"io"
	"math/rand"
	"strings"
	"sync"
	"time"

	"github.com/pascaldekloe/mqtt"

	"verif/run"
	"verif/sim"
	"verif/wire"
)

type c11Req struct {
	Kind    string // subscribe unsubscribe ping
	Filters []string
	Quit    chan struct{}
	QuitAt  int64 // logical time the quit fired, 0 when not
	Call    *sim.Call
}

// c11Run executes a scripted episode and evaluates every call.
func c11Run(c *run.Ctx, nReq, nPing int, script []string, yields bool) {
	ep := newEpisode(c)
	w := ep.W
	defer w.Shutdown()
	ep.F.Off = true
	if err := ep.Init(); err != nil {
		c.Violate("init-failed", err.Error(), nil)
		return
	}
	w.Mu.Lock()
	holding := true
	w.Broker.AckPolicy = func(b *sim.Broker, cn *sim.Conn, p *wire.Packet, reply []byte) string {
		if holding && (p.Type == wire.SUBSCRIBE || p.Type == wire.UNSUBSCRIBE || p.Type == wire.PINGREQ) {
			return "hold"
		}
		return ""
	}
	codeRng := rand.New(rand.NewSource(c.Rng.Int63()))
	w.Broker.SubCodes = func(p *wire.Packet) []byte {
		codes := append([]byte{}, p.QoSs...)
		for i := range codes {
			if codeRng.Intn(4) == 0 {
				codes[i] = 0x80
			}
		}
		return codes
	}
	if yields {
		w.PointPlan = func(w *sim.World, point string, n int) sim.PointAction {
			if strings.HasPrefix(point, "ping.") || point == "toOffline.locked" || point == "write.fail" {
				switch w.Rng.Intn(4) {
				case 0:
					return sim.PointAction{Yield: true}
				case 1:
					return sim.PointAction{Sleep: 30 * time.Microsecond}
				}
			}
			return sim.PointAction{}
		}
	}
	w.ReadPlan = func(cn *sim.Conn, avail int) sim.ReadDecision {
		if avail == 0 {
			return sim.ReadDecision{Then: "block"}
		}
		if avail > 1 && w.Rng.Intn(3) == 0 {
			return sim.ReadDecision{Deliver: 1 + w.Rng.Intn(avail-1)}
		}
		return sim.ReadDecision{Deliver: -1}
	}
	w.Mu.Unlock()
	d := ep.D
	d.StartReader()
	if !w.WaitUntil(sim.StepTimeout, func() bool { return w.PointCountLocked("connect.resent") > 0 && w.ReaderQuietLocked() }) {
		c.Inconclusive("connect slow")
		c.Spoiled()
		return
	}

	var mu sync.Mutex
	var reqs []*c11Req
	closedAt := int64(0)
	issue := func(kind string, withQuit bool, i int) {
		r := &c11Req{Kind: kind}
		var quit <-chan struct{}
		if withQuit {
			r.Quit = make(chan struct{})
			quit = r.Quit
		}
		switch kind {
		case "subscribe":
			for j := 0; j <= i%3; j++ {
				r.Filters = append(r.Filters, fmt.Sprintf("s/%d/%d", i, j))
			}
			fn := []func(<-chan struct{}, ...string) error{d.C.Subscribe, d.C.SubscribeLimitAtMostOnce, d.C.SubscribeLimitAtLeastOnce}[i%3]
			r.Call = d.Go("Subscribe", func() error { return fn(quit, r.Filters...) })
		case "unsubscribe":
			r.Filters = []string{fmt.Sprintf("u/%d", i)}
			r.Call = d.Go("Unsubscribe", func() error { return d.C.Unsubscribe(quit, r.Filters...) })
		default:
			r.Call = d.Go("Ping", func() error { return d.C.Ping(quit) })
		}
		mu.Lock()
		reqs = append(reqs, r)
		mu.Unlock()
	}
	for i := 0; i < nReq; i++ {
		kind := "subscribe"
		if i%4 == 3 {
			kind = "unsubscribe"
		}
		issue(kind, c.Rng.Intn(4) == 0, i)
	}
	for i := 0; i < nPing; i++ {
		issue("ping", c.Rng.Intn(3) == 0, 1000+i)
	}
	// let the requests reach the wire
	w.WaitUntil(200*time.Millisecond, func() bool { return len(w.Broker.Held) >= nReq })

	detail := func() map[string]any {
		return map[string]any{"requests": nReq, "pings": nPing, "script": script, "trace_tail": w.TraceTail(traceN(c))}
	}
	send := func(h sim.HeldReply, note string) {
		if h.Conn.Alive() {
			h.Conn.Send(h.Bytes, note)
		}
	}
	var held []sim.HeldReply
	badFor := map[uint16]bool{} // identifiers that got a malformed response: the reset follows the error
	extra := 0
	for _, step := range script {
		held = append(held, w.Broker.TakeHeld()...)
		switch step {
		case "answer-some":
			c.Rng.Shuffle(len(held), func(i, j int) { held[i], held[j] = held[j], held[i] })
			k := 1 + c.Rng.Intn(len(held)+1)
			for i := 0; i < k && len(held) > 0; i++ {
				send(held[0], "answer")
				held = held[1:]
			}
		case "duplicate":
			if len(held) > 0 {
				h := held[c.Rng.Intn(len(held))]
				send(h, "answer")
				send(h, "answer again")
				for i, x := range held {
					if &x.Bytes[0] == &h.Bytes[0] {
						held = append(held[:i], held[i+1:]...)
						break
					}
				}
			}
		case "bad-response":
			// a SUBACK for a pending request with an illegal return code, or one code
			// too many: a protocol violation; every pending request must still return
			for i, h := range held {
				if h.Bytes[0]>>4 == wire.SUBACK && h.Conn.Alive() {
					b := append([]byte{}, h.Bytes...)
					if c.Rng.Intn(2) == 0 {
						b[len(b)-1] = 0x03
					} else {
						b = append(b, 0)
						b[1]++
					}
					if hl, _, err := wire.Header(b); err == nil {
						badFor[uint16(b[hl])<<8|uint16(b[hl+1])] = true
					}
					h.Conn.Send(b, "malformed SUBACK")
					held = append(held[:i], held[i+1:]...)
					break
				}
			}
			w.WaitUntil(200*time.Millisecond, func() bool { return w.ReaderQuietLocked() })
		case "unsolicited":
			if cn := w.CurConn(); cn != nil && cn.Alive() {
				switch c.Rng.Intn(3) {
				case 0:
					cn.Send(wire.Suback(uint16(0x7000+c.Rng.Intn(0xfff)), 1), "unsolicited SUBACK")
				case 1:
					cn.Send(wire.Ack(wire.UNSUBACK, uint16(0x5000+c.Rng.Intn(0xfff))), "unsolicited UNSUBACK")
				default:
					cn.Send(wire.Pingresp(), "unsolicited PINGRESP")
				}
			}
		case "break":
			if cn := w.CurConn(); cn != nil {
				if c.Rng.Intn(2) == 0 {
					cn.EndInbound(-1, io.EOF)
				} else {
					cn.EndInbound(-1, &netReset{})
				}
			}
			w.WaitUntil(200*time.Millisecond, func() bool { return w.ReaderQuietLocked() })
		case "quit":
			mu.Lock()
			for _, r := range reqs {
				if r.Quit != nil && r.QuitAt == 0 && c.Rng.Intn(2) == 0 {
					r.QuitAt = w.Now()
					close(r.Quit)
				}
			}
			mu.Unlock()
		case "more":
			extra++
			issue([]string{"subscribe", "unsubscribe", "ping"}[c.Rng.Intn(3)], c.Rng.Intn(4) == 0, 2000+extra)
		case "close":
			if closedAt == 0 {
				closedAt = w.Now()
				go d.C.Close()
			}
		case "settle":
			w.WaitUntil(50*time.Millisecond, func() bool { return w.ReaderQuietLocked() })
		}
	}
	// the broker answers everything that is left, nothing gets withheld any more
	w.Mu.Lock()
	holding = false
	w.Mu.Unlock()
	held = append(held, w.Broker.TakeHeld()...)
	for _, h := range held {
		send(h, "answer (late)")
	}
	mu.Lock()
	all := append([]*c11Req(nil), reqs...)
	mu.Unlock()
	allReturned := func() bool {
		for _, r := range all {
			if !r.Call.Returned() {
				return false
			}
		}
		return true
	}
	if !w.WaitUntil(sim.StepTimeout, allReturned) {
		// requests with an open quit and a lost answer would wait for ever by design? No: the
		// connection they were written to is gone or the broker answered: they must return.
		wedged, report := w.Diagnose(1500 * time.Millisecond)
		if !w.WaitUntil(time.Millisecond, allReturned) {
			if wedged {
				var stuck []string
				for _, r := range all {
					if !r.Call.Returned() {
						stuck = append(stuck, fmt.Sprintf("%s%v", r.Kind, r.Filters))
					}
				}
				dt := detail()
				dt["report"] = report
				c.Violate("request-never-returns", fmt.Sprintf("%d requests wait forever although the broker answered everything still answerable: %v", len(stuck), stuck), dt)
			} else {
				c.Inconclusive("requests slow to return: " + firstLine(report))
			}
			c.Spoiled()
			return
		}
	}

	// ---- evaluation ----
	w.Mu.Lock()
	type sent struct {
		pkt  *wire.Packet
		conn *sim.Conn
		seq  int64 // delivered to the client
	}
	var answers []sent
	idOf := map[string]uint16{} // first filter -> identifier
	connOf := map[string]*sim.Conn{}
	writtenSeq := map[string]int64{}
	pingWrites := 0
	for _, cn := range w.Conns {
		pk, _, _ := wire.ParseStream(cn.Out, true)
		for _, p := range pk {
			switch p.Type {
			case wire.SUBSCRIBE, wire.UNSUBSCRIBE:
				idOf[p.Filters[0]] = p.ID
				connOf[p.Filters[0]] = cn
				writtenSeq[p.Filters[0]] = cn.SeqOfOut(p.Offset + len(p.Raw))
			case wire.PINGREQ:
				pingWrites++
			}
		}
		ik, _, _ := wire.ParseStream(cn.In[:cn.InPos], false)
		for _, p := range ik {
			answers = append(answers, sent{p, cn, cn.SeqOfIn(p.Offset + len(p.Raw))})
		}
	}
	pingresps := 0
	for _, a := range answers {
		if a.pkt.Type == wire.PINGRESP {
			pingresps++
		}
	}
	closeSeqOf := func(cn *sim.Conn) int64 { return cn.CloseSeq }
	w.Mu.Unlock()

	nilPings, classes := 0, map[string]int{}
	for _, r := range all {
		err := r.Call.Err
		cls := errClasses(err)
		classes[classNames(cls)]++
		ret := r.Call.RetSeq
		name := fmt.Sprintf("%s%v", r.Kind, r.Filters)
		bad := func(sig, msg string) {
			c.Violate(sig, name+": "+msg, detail())
		}
		if cls["ErrCanceled"] || cls["ErrAbandoned"] {
			if r.QuitAt == 0 {
				bad("quit-class-without-quit", fmt.Sprintf("returned %q though its quit never fired", err))
			}
			continue
		}
		if cls["ErrClosed"] {
			if closedAt == 0 || closedAt > ret {
				bad("errclosed-without-close", fmt.Sprintf("returned %q though Close had not been called", err))
			}
			continue
		}
		if cls["ErrMax"] {
			if r.Kind != "ping" {
				// "a large number of slots": refusal is in order with hundreds of other
				// requests in flight during the call, and only then
				others := 0
				for _, o := range all {
					if o != r && o.Kind != "ping" && o.Call.CallSeq < ret && (o.Call.RetSeq == 0 || o.Call.RetSeq > r.Call.CallSeq) && !errors.Is(o.Call.Err, mqtt.ErrMax) {
						others++
					}
				}
				if others < 256 {
					bad("errmax-below-slot-limit", fmt.Sprintf("returned %q with only %d other subscribe/unsubscribe requests in flight during the call", err, others))
				}
				continue
			}
			overlap := false
			for _, o := range all {
				if o != r && o.Kind == "ping" && o.Call.CallSeq < ret && o.Call.RetSeq > r.Call.CallSeq && !errors.Is(o.Call.Err, mqtt.ErrMax) {
					overlap = true
				}
			}
			if !overlap {
				bad("ping-errmax-without-other-ping", "got ErrMax though no other Ping was in flight during the call")
			}
			continue
		}
		if r.Kind == "ping" {
			switch {
			case err == nil:
				nilPings++
			case cls["ErrBreak"] || cls["ErrSubmit"] || cls["ErrDown"]:
				// needs a connection loss or Close before the return
				lost := closedAt != 0 && closedAt < ret
				w.Mu.Lock()
				for _, cn := range w.Conns {
					if cn.CloseSeq != 0 && cn.CloseSeq < ret && cn.CloseSeq > r.Call.CallSeq {
						lost = true
					}
				}
				w.Mu.Unlock()
				if !lost {
					bad("connection-error-without-loss", fmt.Sprintf("returned %q though no connection was lost during the call", err))
				}
			default:
				bad("undocumented-error-class", fmt.Sprintf("returned %q", err))
			}
			continue
		}
		key := r.Filters[0]
		id, written := idOf[key]
		var mine []sent
		for _, a := range answers {
			wantType := byte(wire.SUBACK)
			if r.Kind == "unsubscribe" {
				wantType = wire.UNSUBACK
			}
			if written && a.pkt.Type == wantType && a.pkt.ID == id && a.seq != 0 && a.seq < ret && a.seq > writtenSeq[key] {
				mine = append(mine, a)
			}
		}
		var se mqtt.SubscribeError
		switch {
		case err == nil:
			if len(mine) == 0 {
				bad("success-without-own-response", fmt.Sprintf("returned nil though the broker delivered no response for identifier %#04x before the return at #%d", id, ret))
				break
			}
			if r.Kind == "subscribe" {
				for _, code := range mine[0].pkt.Codes {
					if code == 0x80 {
						bad("failed-filter-reported-as-success", fmt.Sprintf("returned nil though the SUBACK for %#04x fails a filter (%x)", id, mine[0].pkt.Codes))
					}
				}
			}
		case errors.As(err, &se):
			if len(mine) == 0 {
				bad("subscribe-error-without-own-response", fmt.Sprintf("returned %q though the broker delivered no SUBACK for identifier %#04x", err, id))
				break
			}
			var want []string
			for i, code := range mine[0].pkt.Codes {
				if code == 0x80 && i < len(r.Filters) {
					want = append(want, r.Filters[i])
				}
			}
			if strings.Join(want, "|") != strings.Join([]string(se), "|") {
				bad("subscribe-error-filters-differ", fmt.Sprintf("SubscribeError lists %q, the SUBACK for %#04x (%x) fails %q", []string(se), id, mine[0].pkt.Codes, want))
			}
		case cls["ErrBreak"] || cls["ErrSubmit"] || cls["ErrDown"]:
			// interval rule: a connection was lost at some point inside [call, return];
			// the caller cannot tell on which connection its request travelled
			lost := closedAt != 0 && closedAt < ret
			if cn := connOf[key]; cn != nil {
				if cs := closeSeqOf(cn); cs != 0 && cs < ret {
					lost = true
				}
			}
			w.Mu.Lock()
			for _, cn := range w.Conns {
				if cn.CloseSeq != 0 && cn.CloseSeq < ret && cn.CloseSeq > r.Call.CallSeq {
					lost = true
				}
			}
			w.Mu.Unlock()
			if !lost && !(written && badFor[id]) {
				bad("connection-error-without-loss", fmt.Sprintf("returned %q though its connection was alive at the return", err))
			}
			if cls["ErrBreak"] && !written {
				bad("errbreak-without-submission", fmt.Sprintf("returned %q though its packet is on no connection", err))
			}
		default:
			bad("undocumented-error-class", fmt.Sprintf("returned %q", err))
		}
	}
	if nilPings > pingresps {
		c.Violate("ping-success-without-pingresp", fmt.Sprintf("%d Ping calls returned nil, the broker delivered %d PINGRESP", nilPings, pingresps), detail())
	}
	if !d.CloseAndWait() {
		c.Spoiled()
	}
	c.Count("requests", len(all))
	c.Count("responses_delivered", len(answers))
	for k, n := range classes {
		c.Count("class."+k, n)
	}
	c.Count("hook.ping.writefail", w.PointCount("ping.writefail"))
	c.Count("hook.ping.quit", w.PointCount("ping.quit"))
	if len(all) >= 2 {
		c.Trigger(fmt.Sprintf("reqs=%d|pings=%d|%s", min(nReq/4, 8), min(nPing, 4), strings.Join(script, ",")))
	}
	c.Sample(map[string]any{"requests": nReq, "pings": nPing, "script": script, "result_classes": classes})
}

// pingHandover drives the slot hand-over window deterministically with the
// hook points: a failed Ping is parked before it releases the slot, the read
// routine clears the slot, a second Ping installs itself, the first continues.
func pingHandover(c *run.Ctx, variant string) {
	ep := newEpisode(c)
	w := ep.W
	defer w.Shutdown()
	ep.F.Off = true
	if err := ep.Init(); err != nil {
		c.Violate("init-failed", err.Error(), nil)
		return
	}
	park := map[string]string{"writefail": "ping.writefail", "quit": "ping.quit"}[variant]
	armed := true
	failPing := variant == "writefail"
	w.Mu.Lock()
	w.PointPlan = func(w *sim.World, point string, n int) sim.PointAction {
		if armed && point == park {
			armed = false
			return sim.PointAction{Park: "first"}
		}
		return sim.PointAction{}
	}
	w.WritePlan = func(cn *sim.Conn, p []byte) sim.WriteDecision {
		// (the client may hand the two bytes over one by one)
		if failPing && len(p) <= 2 && len(p) != 0 && p[0] == 0xc0 {
			failPing = false
			return sim.WriteDecision{Accept: len(p) - 1, Then: "error"}
		}
		return sim.WriteDecision{Accept: -1}
	}
	holding := true
	w.Broker.AckPolicy = func(b *sim.Broker, cn *sim.Conn, p *wire.Packet, reply []byte) string {
		if holding && p.Type == wire.PINGREQ {
			return "hold"
		}
		return ""
	}
	w.Mu.Unlock()
	d := ep.D
	d.StartReader()
	w.WaitUntil(sim.StepTimeout, func() bool { return w.PointCountLocked("connect.resent") > 0 && w.ReaderQuietLocked() })
	detail := func() map[string]any { return map[string]any{"variant": variant, "trace_tail": w.TraceTail(traceN(c))} }

	quit := make(chan struct{})
	first := d.Go("Ping", func() error { return d.C.Ping(quit) })
	if variant == "quit" {
		// the first Ping is submitted; the connection breaks, which clears the slot; then its quit fires
		w.WaitUntil(sim.StepTimeout, func() bool { return len(w.Broker.Held) > 0 })
		w.CurConn().EndInbound(-1, io.EOF)
		w.WaitUntil(sim.StepTimeout, func() bool { return len(w.Conns) > 1 && w.ReaderQuietLocked() })
		// the first Ping got ErrBreak on its channel; hold it in the quit branch instead
		// (select picks at random between the two; retry is pointless, so accept either)
		close(quit)
	}
	enter := 2 * time.Second
	if variant == "writefail" {
		enter = sim.StepTimeout // nothing but load keeps this variant out of the window
	}
	if !w.WaitGateWaiting("first", 1, enter) {
		// the window was not entered in this variant (legal: the other select branch won);
		// a PINGREQ that did go out gets its answer
		w.Mu.Lock()
		holding = false
		w.Mu.Unlock()
		for _, h := range w.Broker.TakeHeld() {
			if h.Conn.Alive() {
				h.Conn.Send(h.Bytes, "PINGRESP")
			}
		}
		if !w.WaitUntil(sim.StepTimeout, func() bool { return first.Returned() }) {
			c.Violate("request-never-returns", "first Ping never returned", detail())
			c.Spoiled()
			return
		}
		d.CloseAndWait()
		c.Count("handover_window_not_entered", 1)
		return
	}
	// the read routine notices the loss and clears the slot; a new connection comes up
	w.WaitUntil(sim.StepTimeout, func() bool { return len(w.Conns) > 1 && w.ReaderQuietLocked() })
	second := d.Go("Ping", func() error { return d.C.Ping(nil) })
	// the second Ping is submitted on the new connection
	if !w.WaitUntil(sim.StepTimeout, func() bool { return len(w.Broker.Held) > 0 || second.Returned() }) {
		c.Inconclusive("second Ping not submitted")
		c.Spoiled()
		return
	}
	w.Open("first")
	if !w.WaitUntil(sim.StepTimeout, func() bool { return first.Returned() }) {
		c.Violate("request-never-returns", "the first Ping never returned", detail())
		c.Spoiled()
		return
	}
	// now the broker answers the second Ping
	w.Mu.Lock()
	holding = false
	w.Mu.Unlock()
	for _, h := range w.Broker.TakeHeld() {
		if h.Conn.Alive() {
			h.Conn.Send(h.Bytes, "PINGRESP")
		}
	}
	if !w.WaitUntil(sim.StepTimeout, func() bool { return second.Returned() }) {
		wedged, report := w.Diagnose(1500 * time.Millisecond)
		if wedged && !second.Returned() {
			dt := detail()
			dt["report"] = report
			c.Violate("ping-slot-taken-by-another-ping", "a Ping whose PINGREQ was answered never returned: its slot was taken by the release of another Ping", dt)
		} else {
			c.Inconclusive("second Ping slow")
		}
		c.Spoiled()
		return
	}
	if second.Err != nil {
		c.Violate("ping-slot-taken-by-another-ping", fmt.Sprintf("the second Ping returned %q though the broker answered it on a healthy connection", second.Err), detail())
	}
	if !d.CloseAndWait() {
		c.Spoiled()
	}
	c.Count("handover_windows_entered", 1)
	c.Trigger("ping-handover|" + variant)
	c.Sample(map[string]any{"scenario": "ping slot hand-over", "variant": variant, "first": fmt.Sprint(first.Err), "second": fmt.Sprint(second.Err)})
}

// c11PendingConnect issues requests while a reconnect attempt stays pending
// for several periods of the client's poll, fires some of their quits while it
// is still pending, and then lets the attempt fail with nothing following it.
func c11PendingConnect(c *run.Ctx, kind int) {
	ep := newEpisode(c)
	w := ep.W
	defer w.Shutdown()
	ep.F.Off = true
	failKind := c.Rng.Intn(4) // 3: the attempt succeeds
	if kind >= 0 {
		failKind = kind
	}
	if err := ep.Init(); err != nil {
		c.Violate("init-failed", err.Error(), nil)
		return
	}
	w.Mu.Lock()
	w.DialPlan = func(w *sim.World, n int) sim.DialDecision {
		switch {
		case n == 2 && failKind == 0:
			return sim.DialDecision{Gate: "attempt", Err: errors.New("sim: host unreachable")}
		case n == 2:
			return sim.DialDecision{Gate: "attempt"}
		}
		return sim.DialDecision{}
	}
	w.Broker.Connack = func(b *sim.Broker, cn *sim.Conn, p *wire.Packet) []byte {
		if cn.Idx >= 2 && failKind != 3 {
			if failKind == 1 {
				return wire.Connack(false, byte(1+w.Rng.Intn(5)))
			}
			cn.EndInboundLocked(-1, io.EOF)
			return nil
		}
		return wire.Connack(b.State.Session && !p.Connect.CleanSession, 0)
	}
	w.Mu.Unlock()
	d := ep.D
	d.Manual = true
	d.StartReader()
	detail := func() map[string]any {
		return map[string]any{"attempt_ends_by": []string{"dial error", "refusal", "missing CONNACK", "success"}[failKind], "trace_tail": w.TraceTail(traceN(c))}
	}
	d.GrantWhenPaused(sim.StepTimeout)
	if !w.WaitUntil(sim.StepTimeout, func() bool { return w.PointCountLocked("connect.resent") > 0 && w.ReaderQuietLocked() }) {
		c.Inconclusive("connect slow")
		c.Spoiled()
		return
	}
	// the connection gets lost; the next invocation starts the reconnect, which stays pending
	w.CurConn().EndInbound(-1, io.EOF)
	if !w.WaitUntil(sim.StepTimeout, func() bool { return d.ReadCount() >= 1 }) {
		c.Inconclusive("loss not reported")
		c.Spoiled()
		return
	}
	d.GrantWhenPaused(sim.StepTimeout)
	if !w.WaitGateWaiting("attempt", 1, sim.StepTimeout) {
		c.Inconclusive("reconnect attempt not reached: " + strings.Join(w.TraceTail(12), " | "))
		c.Spoiled()
		return
	}
	var reqs []*c11Req
	n := 2 + c.Rng.Intn(7)
	if failKind == 3 {
		n = 4 + c.Rng.Intn(5)
	}
	pinged := false
	for i := 0; i < n; i++ {
		r := &c11Req{Kind: []string{"subscribe", "unsubscribe", "ping", "publish"}[c.Rng.Intn(4)]}
		if r.Kind == "ping" {
			if pinged {
				r.Kind = "publish" // one Ping at a time: a second one gets ErrMax by design
			}
			pinged = true
		}
		var quit <-chan struct{}
		if c.Rng.Intn(2) == 0 || failKind == 3 && i < 4 {
			r.Quit = make(chan struct{})
			quit = r.Quit
		}
		if failKind == 3 && i < 4 && r.Kind == "publish" {
			r.Kind = []string{"subscribe", "unsubscribe"}[i%2] // requests with identifiers
		}
		f := fmt.Sprintf("pc/%d", i)
		switch r.Kind {
		case "subscribe":
			r.Call = d.Go("Subscribe", func() error { return d.C.Subscribe(quit, f) })
		case "unsubscribe":
			r.Call = d.Go("Unsubscribe", func() error { return d.C.Unsubscribe(quit, f) })
		case "ping":
			r.Call = d.Go("Ping", func() error { return d.C.Ping(quit) })
		default:
			r.Call = d.Go("Publish", func() error { return d.C.Publish(quit, []byte("x"), f) })
		}
		reqs = append(reqs, r)
	}
	// several periods of the client's 20 ms poll go by (this holds nothing against a clock:
	// it only lets whatever timers the requests use fire more than once)
	time.Sleep(time.Duration(45+c.Rng.Intn(40)) * time.Millisecond)
	early := 0
	for _, r := range reqs {
		if r.Call.Returned() {
			early++
			c.Violate("request-did-not-await-connect", fmt.Sprintf("%s issued while the reconnect was pending returned %v before the attempt was decided", r.Call.Method, r.Call.Err), detail())
		}
	}
	await := func(r *c11Req, sig, what string) bool {
		select {
		case <-r.Call.Done:
			return true
		case <-time.After(sim.StepTimeout):
		}
		wedged, report := w.Diagnose(1500 * time.Millisecond)
		if r.Call.Returned() {
			return true
		}
		if wedged {
			dt := detail()
			dt["report"] = report
			c.Violate(sig, fmt.Sprintf("%s %s", r.Call.Method, what), dt)
		} else {
			c.Inconclusive("request slow: " + what)
		}
		c.Spoiled()
		return false
	}
	if failKind == 3 {
		c11PendingThenOnline(c, ep, reqs, detail, await)
		return
	}
	// quits fired while the attempt is still pending
	fired := 0
	for i, r := range reqs {
		if r.Quit != nil && i%2 == 0 {
			close(r.Quit)
			r.QuitAt = w.Now()
			fired++
			if !await(r, "quit-ignored-while-connect-pending", "does not return although its quit fired while the connect attempt is pending") {
				w.Open("attempt")
				d.CloseAndWait()
				return
			}
			if !errors.Is(r.Call.Err, mqtt.ErrCanceled) {
				c.Violate("quit-result-while-connect-pending", fmt.Sprintf("%s with its quit fired before anything was written returned %v, want ErrCanceled", r.Call.Method, r.Call.Err), detail())
			}
		}
	}
	// the attempt fails, and nothing follows it
	w.Open("attempt")
	if !w.WaitUntil(sim.StepTimeout, func() bool { return d.ReadCount() >= 2 }) {
		c.Inconclusive("failed attempt not reported")
		c.Spoiled()
		return
	}
	for _, r := range reqs {
		if r.Call.Returned() {
			continue
		}
		if !await(r, "request-never-returns-after-failed-connect", "issued while the reconnect was pending still waits after that attempt failed and no other follows") {
			d.CloseAndWait()
			return
		}
		if !errors.Is(r.Call.Err, mqtt.ErrDown) {
			c.Violate("request-result-after-failed-connect", fmt.Sprintf("%s issued while the reconnect was pending returned %v after the attempt failed, want ErrDown", r.Call.Method, r.Call.Err), detail())
		}
	}
	// nothing of these requests reached a connection
	w.Mu.Lock()
	for _, cn := range w.Conns {
		pk, _, _ := wire.ParseStream(cn.Out, true)
		for _, p := range pk {
			if p.Type != wire.CONNECT {
				c.Violate("bytes-written-without-connection", fmt.Sprintf("conn %d carries %s although no request was issued while a connection was up", cn.Idx, p), nil)
			}
		}
	}
	w.Mu.Unlock()
	if !d.CloseAndWait() {
		c.Spoiled()
	}
	c.Count("requests_during_pending_connect", n)
	c.Count("quits_fired_during_pending_connect", fired)
	c.Trigger(fmt.Sprintf("pending-connect|fail=%d|n=%d|quits=%d", failKind, min(n, 4), min(fired, 2)))
	c.Sample(map[string]any{"scenario": "requests during a pending reconnect that fails", "requests": n, "quits_fired_while_pending": fired, "attempt_fails_by": []string{"dial error", "refusal", "missing CONNACK"}[failKind]})
}

// c11PendingThenOnline: quits fire while the reconnect is pending, then the
// attempt succeeds; what was not canceled goes out, some of it gets abandoned
// while the broker still owes the answer, new requests follow. Nobody may lose
// the write lock, and no identifier may go out again while the broker still
// holds an unanswered request under it.
func c11PendingThenOnline(c *run.Ctx, ep *Episode, reqs []*c11Req, detail func() map[string]any, await func(*c11Req, string, string) bool) {
	w, d := ep.W, ep.D
	var moreReqs []*c11Req
	// sent counts the requests that were not canceled before anything was written
	sent := func() int {
		n := 0
		for _, r := range append(append([]*c11Req{}, reqs...), moreReqs...) {
			if !(r.Call.Returned() && errors.Is(r.Call.Err, mqtt.ErrCanceled)) {
				n++
			}
		}
		return n
	}
	w.Mu.Lock()
	holding := true
	type openReq struct {
		what string
		seq  int64
	}
	open := map[uint16]openReq{}
	var reused []string
	w.Broker.OnPacket = func(cn *sim.Conn, p *wire.Packet) {
		if p.Type != wire.SUBSCRIBE && p.Type != wire.UNSUBSCRIBE {
			return
		}
		if o, ok := open[p.ID]; ok {
			reused = append(reused, fmt.Sprintf("%s goes out with identifier %#04x while the broker still owes the answer to %s (received at #%d)", p, p.ID, o.what, o.seq))
		}
		open[p.ID] = openReq{p.String() + " " + strings.Join(p.Filters, ","), w.Now0()}
	}
	w.Broker.AckPolicy = func(b *sim.Broker, cn *sim.Conn, p *wire.Packet, reply []byte) string {
		if holding && (p.Type == wire.SUBSCRIBE || p.Type == wire.UNSUBSCRIBE || p.Type == wire.PINGREQ) {
			return "hold"
		}
		if p.Type == wire.SUBSCRIBE || p.Type == wire.UNSUBSCRIBE {
			delete(open, p.ID)
		}
		return ""
	}
	w.Mu.Unlock()
	// some give up while the connect is pending; nobody waits for them here
	canceled := 0
	for i, r := range reqs {
		if r.Quit != nil && i%2 == 0 {
			close(r.Quit)
			r.QuitAt = w.Now()
			canceled++
		}
	}
	time.Sleep(time.Duration(c.Rng.Intn(3)) * time.Millisecond)
	w.Open("attempt")
	if !w.WaitUntil(sim.StepTimeout, func() bool { return w.PointCountLocked("connect.resent") >= 2 }) {
		c.Inconclusive("reconnect slow")
		c.Spoiled()
		return
	}
	for _, r := range reqs {
		if r.QuitAt != 0 {
			if !await(r, "request-never-returns", "does not return although its quit fired while the connect attempt was pending") {
				d.CloseAndWait()
				return
			}
			if r.Call.Err != nil && !errors.Is(r.Call.Err, mqtt.ErrCanceled) && !errors.Is(r.Call.Err, mqtt.ErrAbandoned) {
				c.Violate("quit-result-while-connect-pending", fmt.Sprintf("%s with its quit fired returned %v", r.Call.Method, r.Call.Err), detail())
			}
		}
	}
	// the others are on the wire now, unanswered; a few get abandoned
	w.WaitUntil(sim.StepTimeout, func() bool {
		// every request still in flight reached the broker, and the read routine is parked
		n := 0
		for _, e := range w.Trace {
			if e.Kind == "broker.recv" && (strings.HasPrefix(e.Note, "SUBSCRIBE") || strings.HasPrefix(e.Note, "UNSUBSCRIBE") || strings.HasPrefix(e.Note, "PINGREQ") || strings.HasPrefix(e.Note, "PUBLISH")) {
				n++
			}
		}
		return n >= sent() && w.ReaderQuietLocked()
	})
	abandoned := 0
	for _, r := range reqs {
		if r.QuitAt == 0 && r.Quit != nil && !r.Call.Returned() {
			close(r.Quit)
			r.QuitAt = w.Now()
			abandoned++
			if !await(r, "request-never-returns", "does not return although its quit fired while it awaited the answer") {
				d.CloseAndWait()
				return
			}
		}
	}
	// new requests while the broker still owes the answers to abandoned ones
	var more []*c11Req
	for i := 0; i < 2+c.Rng.Intn(4); i++ {
		r := &c11Req{Kind: "subscribe"}
		f := fmt.Sprintf("pc/more/%d", i)
		if i%2 == 0 {
			r.Call = d.Go("Subscribe", func() error { return d.C.Subscribe(nil, f) })
		} else {
			r.Kind = "unsubscribe"
			r.Call = d.Go("Unsubscribe", func() error { return d.C.Unsubscribe(nil, f) })
		}
		more = append(more, r)
		moreReqs = append(moreReqs, r)
	}
	w.WaitUntil(sim.StepTimeout, func() bool {
		// every request still in flight reached the broker, and the read routine is parked
		n := 0
		for _, e := range w.Trace {
			if e.Kind == "broker.recv" && (strings.HasPrefix(e.Note, "SUBSCRIBE") || strings.HasPrefix(e.Note, "UNSUBSCRIBE") || strings.HasPrefix(e.Note, "PINGREQ") || strings.HasPrefix(e.Note, "PUBLISH")) {
				n++
			}
		}
		return n >= sent() && w.ReaderQuietLocked()
	})
	w.Mu.Lock()
	holding = false
	bad := append([]string(nil), reused...)
	w.Mu.Unlock()
	for _, b := range bad {
		c.Violate("identifier-reused-while-broker-awaits", b, detail())
		break
	}
	w.Broker.ReleaseHeld()
	for _, r := range append(append([]*c11Req{}, reqs...), more...) {
		if r.Call.Returned() {
			continue
		}
		if !await(r, "request-never-returns", "does not return after the broker answered everything") {
			d.CloseAndWait()
			return
		}
	}
	for _, r := range more {
		if r.Call.Err != nil {
			c.Violate("request-fails-on-healthy-connection", fmt.Sprintf("%s issued after the reconnect returned %v", r.Call.Method, r.Call.Err), detail())
		}
	}
	// the write lock is still there for everybody
	probe := &c11Req{Kind: "ping"}
	probe.Call = d.Go("Ping", func() error { return d.C.Ping(nil) })
	if !await(probe, "write-lock-lost", "issued after the canceled requests returned never gets through: the connection is online, nothing else is in flight") {
		d.CloseAndWait()
		return
	}
	if probe.Call.Err != nil {
		c.Violate("request-fails-on-healthy-connection", fmt.Sprintf("Ping after the reconnect returned %v", probe.Call.Err), detail())
	}
	if !d.CloseAndWait() {
		c.Spoiled()
	}
	c.Count("requests_during_pending_connect", len(reqs))
	c.Count("quits_fired_during_pending_connect", canceled)
	c.Count("requests_abandoned_with_answer_owed", abandoned)
	c.Trigger(fmt.Sprintf("pending-connect|success|n=%d|canceled=%d|abandoned=%d", min(len(reqs), 4), min(canceled, 2), min(abandoned, 2)))
	c.Sample(map[string]any{"scenario": "requests during a pending reconnect that succeeds", "requests": len(reqs), "canceled_while_pending": canceled, "abandoned_with_answer_owed": abandoned, "new_requests": len(more)})
}

func init() {
	steps := []string{"answer-some", "answer-some", "duplicate", "unsolicited", "break", "quit", "more", "settle", "close", "bad-response"}
	run.Register(&run.Prop{
		ID:    "C11",
		Level: "exploration",
		Cases: func(tier string) int {
			if tier == "thorough" {
				return 12000
			}
			return 1200
		},
		ChunkSize:   40,
		Rule:        "each case issues 2-40 (thorough: up to 512) concurrent Subscribe/SubscribeLimit*/Unsubscribe calls with unique filters (so request <-> packet identifier is read off the wire) plus 0-4 Ping calls, a quarter with a quit channel; the reference broker withholds every response and a PRNG script of 3-10 steps then answers subsets in random order, duplicates a response, sends unsolicited SUBACK/UNSUBACK/PINGRESP of the right spaces, fails random filter subsets with 0x80, sends a SUBACK with an illegal code or a surplus code for a pending request, breaks the connection, fires quits, issues more requests, calls Close; random yields/sleeps at the Ping hook points; finally everything still answerable is answered. Every 10th case drives the Ping slot hand-over window deterministically through the hook points ping.writefail / ping.quit (park the releasing Ping, let the read routine clear the slot, let a second Ping install, continue), or sends a PINGRESP nobody asked for while a PINGREQ write is stalled after its first byte and then fails (nil needs the request to have gone out). Every 10th case issues 2-8 requests (all kinds, half with a quit) while a reconnect attempt is held pending for 45-85 ms, fires some quits while it is pending (ErrCanceled), then lets the attempt fail by dial error, refusal or missing CONNACK with no further attempt: every request returns ErrDown; or the attempt succeeds after quits fired during the wait, some of the requests then get abandoned with the answer owed and new ones follow (no identifier goes out again while the broker owes an answer under it, and a final Ping proves that nobody lost the write lock). One case keeps a request open while 8,200 others complete, so that the identifier counter comes round to it. Oracle per call, by logical-time intervals: it returns; nil only with a success response for ITS identifier delivered before the return; SubscribeError with exactly the filters its SUBACK failed, in order; ErrSubmit/ErrBreak/ErrDown only with a connection lost (or Close) before the return; ErrCanceled/ErrAbandoned only after its quit fired; ErrClosed only after Close; ErrMax for Ping only with another Ping in flight, for the others only with hundreds of them in flight during the call; successful Pings <= PINGRESPs delivered. Non-trivial: >= 2 requests racing responses or a loss; distinct by request counts and script.",
		Assumptions: []string{"overlapping calls are judged by interval: a result is accepted when legal for some order of the critical events inside [call, return]", "porcupine is not used here: requests share no state beyond the slot count, which is checked by interval overlap"},
		Run: func(c *run.Ctx) {
			if c.Case%10 == 9 {
				if c.Case/10%3 == 2 {
					c11EarlyPong(c)
					return
				}
				pingHandover(c, []string{"writefail", "quit"}[c.Case/10%2])
				return
			}
			if c.Case%10 == 8 {
				c11PendingConnect(c, -1)
				return
			}
			if c.Case == 7 || c.Tier == "thorough" && c.Case%200 == 7 {
				// one request stays open while 8,200 others complete: the identifier
				// counter comes round to it, its late answer must still be its own
				c17Unordered(c, 40, true)
				return
			}
			nReq := 2 + c.Rng.Intn(39)
			if c.Tier == "thorough" && c.Case%50 == 0 {
				nReq = 500 + c.Rng.Intn(13)
			}
			n := 3 + c.Rng.Intn(8)
			var script []string
			closed := false
			for i := 0; i < n; i++ {
				s := steps[c.Rng.Intn(len(steps))]
				if s == "close" {
					if closed || i < n-2 {
						s = "answer-some"
					}
					closed = true
				}
				script = append(script, s)
			}
			c11Run(c, nReq, c.Rng.Intn(5), script, c.Rng.Intn(2) == 0)
		},
	})
}

// c11EarlyPong sends a PINGRESP nobody asked for while the write of a PINGREQ
// is stalled after its first byte; then that write fails. A response that came
// before the request went out is not the answer to that request: the Ping
// fails with its connection.
func c11EarlyPong(c *run.Ctx) {
	ep := newEpisode(c)
	w := ep.W
	defer w.Shutdown()
	ep.F.Off = true
	if err := ep.Init(); err != nil {
		c.Violate("init-failed", err.Error(), nil)
		return
	}
	outcome := []string{"error", "timeout"}[c.Rng.Intn(2)]
	armed := true
	w.Mu.Lock()
	w.WritePlan = func(cn *sim.Conn, p []byte) sim.WriteDecision {
		if armed && len(p) != 0 && len(p) <= 2 && p[0] == 0xc0 {
			armed = false
			if len(p) == 1 {
				// (handed over byte by byte: the first goes out, the second fails)
				return sim.WriteDecision{Accept: -1}
			}
			return sim.WriteDecision{Accept: 1, GateAfter: "ping", Then: outcome}
		}
		if !armed && len(p) == 1 && cn.Idx == 1 && p[0] == 0x00 {
			return sim.WriteDecision{Accept: 0, Gate: "ping", Then: "error"}
		}
		return sim.WriteDecision{Accept: -1}
	}
	w.Mu.Unlock()
	d := ep.D
	d.StartReader()
	w.WaitUntil(sim.StepTimeout, func() bool { return w.PointCountLocked("connect.resent") > 0 && w.ReaderQuietLocked() })
	detail := func() map[string]any { return map[string]any{"trace_tail": w.TraceTail(traceN(c))} }
	cn := w.CurConn()
	ping := d.Go("Ping", func() error { return d.C.Ping(nil) })
	if !w.WaitGateWaiting("ping", 1, sim.StepTimeout) {
		c.Inconclusive("the PINGREQ write never stalled")
		c.Spoiled()
		w.Open("ping")
		return
	}
	cn.Send(wire.Pingresp(), "PINGRESP nobody asked for")
	w.WaitReaderQuiet(sim.StepTimeout)
	w.Open("ping")
	if !w.WaitUntil(sim.StepTimeout, func() bool { return ping.Returned() }) {
		wedged, report := w.Diagnose(1500 * time.Millisecond)
		if wedged && !ping.Returned() {
			dt := detail()
			dt["report"] = report
			c.Violate("request-never-returns", "a Ping whose write failed after a PINGRESP came early never returned", dt)
		} else {
			c.Inconclusive("Ping slow")
		}
		c.Spoiled()
		return
	}
	// was the PINGREQ written in full anywhere before the return?
	w.Mu.Lock()
	whole := false
	for _, x := range w.Conns {
		pk, _, _ := wire.ParseStream(x.Out, true)
		for _, q := range pk {
			if q.Type == wire.PINGREQ && x.SeqOfOut(q.Offset+len(q.Raw)) < ping.RetSeq {
				whole = true
			}
		}
	}
	w.Mu.Unlock()
	if ping.Err == nil && !whole {
		c.Violate("response-without-request", "Ping returned nil although its PINGREQ never went out whole: the PINGRESP it took came before the request", detail())
	}
	c.Count("pongs_ahead_of_the_request", 1)
	c.Trigger("early-pong|" + outcome)
	if !d.CloseAndWait() {
		c.Spoiled()
	}
}
