package props

import (
	"errors"
	"fmt"
	"time"

	"github.com/pascaldekloe/mqtt"

	"verif/run"
	"verif/sim"
	"verif/wire"
)

// c13AckAhead has the broker acknowledge a PUBLISH while the client is still
// writing it: the identifier is the next in line, so nothing tells the client
// that the acknowledgement is early. Then the write completes, fails, expires,
// or the broker goes on with a violation that makes the client leave the
// connection under the writer. Whatever the broker does: no panic, the publish
// call returns, and the client goes on to receive.
//
// The check of C13 judges the incident itself; the check of C01 (prop "C01")
// judges what comes after it: a publish accepted on the connection in working
// order must still be written.
func c13AckAhead(c *run.Ctx, prop string, level int, prior int, accept int, acks string, outcome string) {
	label := fmt.Sprintf("acknowledgement ahead of the write: level %d, %d earlier transfers, %s after %d bytes of the PUBLISH went out, then the write %s", level, prior, acks, accept, outcome)
	w := sim.NewWorld(c.Rng.Int63())
	defer w.Shutdown()
	sim.InstallHooks(w)
	w.RequireDeadlines = true
	w.DataCap = 48
	w.Mu.Lock()
	w.Broker.Mute = true
	armed := false
	stalled := false
	w.WritePlan = func(cn *sim.Conn, p []byte) sim.WriteDecision {
		if !armed || stalled || cn.Idx != 1 || len(p) == 0 || p[0]>>4 != wire.PUBLISH {
			return sim.WriteDecision{Accept: -1}
		}
		stalled = true
		d := sim.WriteDecision{Accept: min(accept, len(p)-1), GateAfter: "stall"}
		switch outcome {
		case "fails":
			d.Then = "error"
		case "expires":
			d.Then = "timeout"
		}
		return d
	}
	w.Mu.Unlock()
	cfg := mqtt.Config{Dialer: w.Dialer(), PauseTimeout: time.Hour, ReconnectWaitMin: time.Microsecond, AtLeastOnceMax: 8, ExactlyOnceMax: 8}
	cl, err := mqtt.InitSession("c13e", w.Store, &cfg)
	if err != nil {
		c.Violate("init-failed", err.Error(), nil)
		return
	}
	d := sim.NewDriver(w, cl, nil, 0)
	d.MaxErrs = 6
	d.StartReader()
	if !w.WaitUntil(sim.StepTimeout, func() bool { return len(w.Conns) > 0 && w.Broker.Accepted(w.Conns[0]) }) {
		c.Inconclusive(label + ": no connection")
		c.Spoiled()
		return
	}
	cn := w.CurConn()
	idBase := uint16(0x8000)
	first, second := byte(wire.PUBACK), byte(0)
	if level == 2 {
		idBase, first, second = 0xc000, wire.PUBREC, wire.PUBCOMP
	}
	// earlier transfers, acknowledged in full
	for i := 0; i < prior; i++ {
		p := d.Publish(level, false, 3)
		if !p.Accepted() {
			c.Inconclusive(label + ": earlier publish refused: " + p.Err.Error())
			c.Spoiled()
			return
		}
		cn.Send(wire.Ack(first, idBase+uint16(i)), "earlier transfer")
		if second != 0 {
			cn.Send(wire.Ack(second, idBase+uint16(i)), "earlier transfer")
		}
		if !w.WaitUntil(sim.StepTimeout, func() bool { return p.ClosedSeq != 0 }) {
			c.Inconclusive(label + ": earlier transfer did not complete")
			c.Spoiled()
			return
		}
	}
	w.Mu.Lock()
	armed = true
	w.Mu.Unlock()
	done := make(chan *sim.Pub, 1)
	go func() { done <- d.Publish(level, false, 40) }()
	if !w.WaitGateWaiting("stall", 1, sim.StepTimeout) {
		c.Inconclusive(label + ": the write never stalled")
		c.Spoiled()
		return
	}
	id := idBase + uint16(prior)
	cn.Send(wire.Ack(first, id), "ahead of the write")
	if acks == "both acknowledgements" {
		cn.Send(wire.Ack(second, id), "ahead of the write")
	}
	if outcome == "is cut off by a reset" {
		// a violation follows: the client leaves the connection under the writer
		cn.Send([]byte{0xf0, 0}, "reserved packet type")
	} else {
		// the read routine takes what came (a PUBREL waits for the writer)
		w.WaitReaderQuiet(sim.StepTimeout)
		w.Open("stall")
	}
	var p *sim.Pub
	select {
	case p = <-done:
	case <-time.After(sim.StepTimeout):
		wedged, report := w.Diagnose(1500 * time.Millisecond)
		select {
		case p = <-done:
		default:
			if wedged {
				c.Violate("publish-never-returns", label+": the publish call does not return", map[string]any{"stacks": report, "trace_tail": w.TraceTail(60)})
			} else {
				c.Inconclusive(label + ": publish call slow")
			}
			c.Spoiled()
			return
		}
	}
	w.Open("stall")
	c.Trigger(fmt.Sprintf("ack-ahead|level=%d|%s|%s|accepted=%v", level, acks, outcome, p.Accepted()))
	// the client goes on: a message sent on the connection in use comes out
	// (an expiry after progress lets the write go on)
	want := 2
	if outcome == "completes" || outcome == "expires" && accept != 0 {
		want = 1
	}
	if !w.WaitUntil(sim.StepTimeout, func() bool {
		return len(w.Conns) >= want && !w.Conns[len(w.Conns)-1].Closed() && w.Broker.Accepted(w.Conns[len(w.Conns)-1])
	}) {
		wedged, report := w.Diagnose(1500 * time.Millisecond)
		if wedged {
			c.Violate("no-fresh-connection", label+": no connection in use afterwards", map[string]any{"stacks": report, "trace_tail": w.TraceTail(60)})
		} else {
			c.Inconclusive(label + ": reconnect slow")
		}
		c.Spoiled()
		return
	}
	w.Broker.Publish("probe/after/early/ack", []byte("still receiving"), 0, false)
	got := func() bool {
		for _, r := range d.ReadsSnapshot() {
			if r.Topic == "probe/after/early/ack" {
				return true
			}
		}
		return false
	}
	if !w.WaitUntil(sim.StepTimeout, got) {
		wedged, report := w.Diagnose(1500 * time.Millisecond)
		if !got() {
			if wedged {
				c.Violate("reception-stops", label+": a message sent afterwards never comes out", map[string]any{"stacks": report, "trace_tail": w.TraceTail(60)})
			} else {
				c.Inconclusive(label + ": probe slow")
			}
		}
	}
	// and to transmit: a publish accepted now goes out on the connection in use
	after := &sim.Pub{Err: errors.New("not made")}
	if prop == "C01" {
		after = d.Publish(level, false, 5)
	}
	if after.Err == nil {
		written := func() bool {
			for _, cn := range w.Conns {
				pk, _, _ := wire.ParseStream(cn.Out, true)
				for _, q := range pk {
					if q.Type == wire.PUBLISH && q.Topic == after.Topic {
						return true
					}
				}
			}
			return false
		}
		if !w.WaitUntil(sim.StepTimeout, written) {
			wedged, report := w.Diagnose(1500 * time.Millisecond)
			if wedged {
				c.Violate("accepted-publish-never-written", label+": a publish accepted afterwards, on a connection in working order, is never written", map[string]any{"stacks": report, "trace_tail": w.TraceTail(60)})
			} else {
				c.Inconclusive(label + ": later publish slow")
			}
		}
	}
	// a transfer counts as complete only with its final acknowledgement in the input
	w.Mu.Lock()
	closed := p.ClosedSeq != 0
	w.Mu.Unlock()
	final := level == 1 || acks == "both acknowledgements"
	if closed && !final && prop == "C13" {
		c.Violate("forged-completion", label+": the exchange closed without the final acknowledgement", map[string]any{"trace_tail": w.TraceTail(60)})
	}
	c.Count("acks_ahead_of_write", 1)
	if !d.CloseAndWait() {
		c.Spoiled()
	}
}
