package props

import (
	"bytes"
	"fmt"
	"math/rand"
	"strings"
	"sync"
	"time"

	"verif/run"
	"verif/sim"
	"verif/wire"
)

// reqRec is a non-persisted request issued by the C08 workload.
type reqRec struct {
	Kind    string // publish, subscribe, unsubscribe, ping
	Topic   string
	Payload []byte
	Retain  bool
	Filters []string
	MaxQoS  byte
	Call    *sim.Call
}

// checkWholePackets parses every connection's outbound byte log and accounts
// for each packet.
func checkWholePackets(c *run.Ctx, ep *Episode, reqs []*reqRec, pubs []*sim.Pub, detail func() map[string]any) (packets, fragments int) {
	w := ep.W
	// snapshot under the lock, analyse without (detail() takes the lock itself)
	type connLog struct {
		Idx     int
		Out, In []byte
	}
	w.Mu.Lock()
	var conns []connLog
	for _, cn := range w.Conns {
		conns = append(conns, connLog{cn.Idx, cn.Out[:len(cn.Out):len(cn.Out)], cn.In[:len(cn.In):len(cn.In)]})
	}
	ops := w.Store.Ops[:len(w.Store.Ops):len(w.Store.Ops)]
	w.Mu.Unlock()

	byTopic := map[string]*reqRec{}
	byFilter := map[string]*reqRec{}
	for _, r := range reqs {
		switch r.Kind {
		case "publish":
			byTopic[r.Topic] = r
		case "subscribe", "unsubscribe":
			byFilter[r.Kind+"|"+strings.Join(r.Filters, "|")] = r
		}
	}
	pubByTopic := map[string]*sim.Pub{}
	for _, p := range pubs {
		pubByTopic[p.Topic] = p
	}
	// identifiers the broker used towards the client
	brokerIDs := map[uint16]bool{}
	for _, cn := range conns {
		ik, _, _ := wire.ParseStream(cn.In, false)
		for _, p := range ik {
			if p.Type == wire.PUBLISH || p.Type == wire.PUBREL {
				brokerIDs[p.ID] = true
			}
		}
	}
	// stored PUBREL identifiers
	relIDs := map[uint16]bool{}
	for _, op := range ops {
		if op.Op == "save" && !op.Err && op.Key >= 0xc000 && op.Key <= 0xffff {
			if pk, err := wire.Decode(stripTrailer(op.Value), true); err == nil && pk.Type == wire.PUBREL {
				relIDs[pk.ID] = true
			}
		}
	}
	complete := map[*reqRec]bool{}

	for _, cn := range conns {
		pk, rest, err := wire.ParseStream(cn.Out, true)
		if err != nil {
			c.Violate("malformed-outbound-stream", fmt.Sprintf("conn %d: %v", cn.Idx, err), detail())
			continue
		}
		packets += len(pk)
		for i, p := range pk {
			bad := func(why string) {
				c.Violate("unaccounted-packet", fmt.Sprintf("conn %d packet %d at offset %d: %s: %s (%x)", cn.Idx, i, p.Offset, p, why, head(p.Raw, 24)), detail())
			}
			switch p.Type {
			case wire.CONNECT:
				if i != 0 {
					bad("CONNECT is not the first packet")
				}
			case wire.PUBLISH:
				if p.QoS == 0 {
					r := byTopic[p.Topic]
					if r == nil {
						bad("no Publish call with this topic")
						break
					}
					want := wire.Publish(r.Topic, r.Payload, 0, 0, false, r.Retain)
					if !bytes.Equal(want, p.Raw) {
						bad("bytes differ from the request's encoding")
						break
					}
					complete[r] = true
					break
				}
				pb := pubByTopic[p.Topic]
				if pb == nil {
					bad("no persisted publish with this topic")
					break
				}
				lvl := byte(pb.Level)
				want := wire.Publish(pb.Topic, pb.Payload, lvl, p.ID, p.Dup, pb.Retain)
				if !bytes.Equal(want, p.Raw) {
					bad("bytes differ from the request's encoding")
				}
				space := uint16(0x8000)
				if lvl == 2 {
					space = 0xc000
				}
				if p.ID&0xc000 != space {
					bad("identifier outside the range of its level")
				}
			case wire.SUBSCRIBE, wire.UNSUBSCRIBE:
				kind := "subscribe"
				if p.Type == wire.UNSUBSCRIBE {
					kind = "unsubscribe"
				}
				r := byFilter[kind+"|"+strings.Join(p.Filters, "|")]
				if r == nil {
					bad("no such request")
					break
				}
				for _, q := range p.QoSs {
					if q != r.MaxQoS {
						bad("requested level differs")
					}
				}
				complete[r] = true
			case wire.PINGREQ, wire.DISCONNECT:
			case wire.PUBACK, wire.PUBREC, wire.PUBCOMP:
				if !brokerIDs[p.ID] {
					bad("the broker never used this identifier")
				}
			case wire.PUBREL:
				if !relIDs[p.ID] {
					bad("no PUBREL record with this identifier was saved")
				}
			default:
				bad("unexpected type")
			}
		}
		if len(rest) != 0 {
			fragments++
			// a true prefix of something the harness can account for
			ok := false
			try := func(full []byte) {
				if len(full) > len(rest) && bytes.Equal(full[:len(rest)], rest) {
					ok = true
				}
			}
			for _, r := range reqs {
				switch r.Kind {
				case "publish":
					try(wire.Publish(r.Topic, r.Payload, 0, 0, false, r.Retain))
				case "ping":
					try([]byte{0xc0, 0})
				}
			}
			if !ok {
				// packets with identifiers: compare modulo the two identifier bytes
				// by decoding what is there
				switch rest[0] >> 4 {
				case wire.PUBLISH, wire.SUBSCRIBE, wire.UNSUBSCRIBE, wire.PUBACK, wire.PUBREC, wire.PUBREL, wire.PUBCOMP, wire.CONNECT, wire.PINGREQ, wire.DISCONNECT:
					ok = fragmentPlausible(rest, reqs, pubs)
				}
			}
			if !ok {
				c.Violate("trailing-fragment-not-a-prefix", fmt.Sprintf("conn %d ends with %d bytes that are no prefix of any issued packet: %x", cn.Idx, len(rest), head(rest, 32)), detail())
			}
		}
	}
	// success implies a complete packet
	for _, r := range reqs {
		if r.Call == nil || !r.Call.Returned() || r.Call.Err != nil {
			continue
		}
		if r.Kind == "publish" && !complete[r] {
			c.Violate("success-without-complete-packet", fmt.Sprintf("Publish to %q returned nil yet no connection carries its packet in full", r.Topic), detail())
		}
		if (r.Kind == "subscribe" || r.Kind == "unsubscribe") && !complete[r] {
			c.Violate("success-without-complete-packet", fmt.Sprintf("%s of %q returned nil yet no connection carries its packet in full", r.Kind, r.Filters), detail())
		}
	}
	return packets, fragments
}

// fragmentPlausible checks a trailing fragment that carries a packet
// identifier against the issued requests.
func fragmentPlausible(rest []byte, reqs []*reqRec, pubs []*sim.Pub) bool {
	hl, rem, err := wire.Header(rest)
	if err != nil {
		// incomplete header: any type byte of an issued kind will do
		return err == wire.ErrIncomplete
	}
	body := rest[hl:]
	switch rest[0] >> 4 {
	case wire.PUBLISH:
		for _, p := range pubs {
			full := wire.Publish(p.Topic, p.Payload, byte(p.Level), 0x8000, false, p.Retain)
			fh, frem, _ := wire.Header(full)
			if frem != rem || rest[0]&^8 != full[0] {
				continue
			}
			fb := full[fh:]
			// compare all but the identifier bytes
			idAt := 2 + len(p.Topic)
			ok := true
			for i := range body {
				if i == idAt || i == idAt+1 {
					continue
				}
				if body[i] != fb[i] {
					ok = false
					break
				}
			}
			if ok {
				return true
			}
		}
		return false
	case wire.SUBSCRIBE, wire.UNSUBSCRIBE:
		for _, r := range reqs {
			if r.Kind != "subscribe" && r.Kind != "unsubscribe" {
				continue
			}
			var fb []byte
			fb = append(fb, 0, 0)
			for _, f := range r.Filters {
				fb = append(fb, byte(len(f)>>8), byte(len(f)))
				fb = append(fb, f...)
				if r.Kind == "subscribe" {
					fb = append(fb, r.MaxQoS)
				}
			}
			if len(fb) != rem || len(body) > len(fb) {
				continue
			}
			ok := true
			for i := 2; i < len(body); i++ {
				if body[i] != fb[i] {
					ok = false
				}
			}
			if ok {
				return true
			}
		}
		return false
	}
	// CONNECT and the fixed four-byte packets: the header decoded, fine
	return rem == 2 || rest[0]>>4 == wire.CONNECT || rem == 0
}

// c08TornAck places the failure of the read routine's own acknowledgement
// write (torn by an expiry after progress, then an expiry without progress, so
// that the connection itself stays writable) while 1-3 other requests are
// queued on the write lock, and delays the read routine on its way to leaving
// the connection.
func c08TornAck(c *run.Ctx) {
	ep := newEpisode(c)
	w := ep.W
	defer w.Shutdown()
	ep.F.Off = true
	kind := c.Rng.Intn(3) // which acknowledgement gets torn: PUBACK/PUBREC, PUBREL, PUBCOMP
	torn, stalled := false, false
	wantAck := []byte{wire.PUBACK, wire.PUBREL, wire.PUBCOMP}[kind]
	w.Mu.Lock()
	w.PointPlan = func(w *sim.World, point string, n int) sim.PointAction {
		if point == "toOffline.enter" {
			return sim.PointAction{Sleep: 300 * time.Microsecond}
		}
		return sim.PointAction{}
	}
	w.Mu.Unlock()
	if err := ep.Init(); err != nil {
		c.Violate("init-failed", err.Error(), nil)
		return
	}
	w.Mu.Lock()
	w.WritePlan = func(cn *sim.Conn, p []byte) sim.WriteDecision {
		isAck := len(p) >= 1 && (p[0]>>4 == wantAck || wantAck == wire.PUBACK && p[0]>>4 == wire.PUBREC)
		switch {
		case !torn && isAck && len(p) == 4:
			torn = true
			return sim.WriteDecision{Accept: 1 + w.Rng.Intn(3), GateAfter: "ack", Then: "timeout"}
		case torn && !stalled:
			// the continuation of the torn acknowledgement: no progress
			stalled = true
			return sim.WriteDecision{Accept: 0, Then: "timeout"}
		}
		return sim.WriteDecision{Accept: -1}
	}
	w.Mu.Unlock()
	d := ep.D
	d.StartReader()
	w.WaitIdle(sim.StepTimeout)
	switch kind {
	case 0:
		w.Broker.Publish("in/ack", []byte("m"), byte(1+c.Rng.Intn(2)), false)
	case 1:
		d.Publish(2, false, 3) // PUBREC comes back, the PUBREL gets torn
	default:
		w.Broker.Publish("in/ack", []byte("m"), 2, false) // PUBREC, PUBREL, then the PUBCOMP gets torn
	}
	if !w.WaitGateWaiting("ack", 1, sim.StepTimeout) {
		c.Inconclusive("the acknowledgement write was not reached")
		d.CloseAndWait()
		return
	}
	// requests queue up behind the read routine, which sits inside its write
	var reqs []*reqRec
	nreq := 1 + c.Rng.Intn(3)
	for i := 0; i < nreq; i++ {
		r := &reqRec{Kind: "publish", Topic: fmt.Sprintf("p/q%d", i), Payload: sim.MarkerPayload(i, 20+c.Rng.Intn(200))}
		reqs = append(reqs, r)
		r.Call = d.Go("Publish", func() error { return d.C.Publish(nil, r.Payload, r.Topic) })
	}
	time.Sleep(2 * time.Millisecond) // let them reach the lock; nothing depends on it
	w.Open("ack")
	for _, r := range reqs {
		select {
		case <-r.Call.Done:
		case <-time.After(sim.StepTimeout):
			wedged, report := w.Diagnose(1500 * time.Millisecond)
			if wedged && !r.Call.Returned() {
				c.Violate("requests-never-return", "a request queued behind the failing acknowledgement never returned", map[string]any{"report": report, "trace_tail": w.TraceTail(60)})
			} else {
				c.Inconclusive("queued request slow")
			}
			c.Spoiled()
			return
		}
	}
	w.Broker.ReleaseHeld()
	if st, _ := ep.awaitOrDiagnose("transfers complete", d.AllClosed); st != "" {
		c.Inconclusive("slow drain after the torn acknowledgement")
		c.Spoiled()
		return
	}
	w.WaitIdle(sim.StepTimeout)
	detail := func() map[string]any {
		return map[string]any{"torn": wire.TypeName(wantAck), "queued_requests": nreq, "trace_tail": w.TraceTail(traceN(c))}
	}
	packets, frags := checkWholePackets(c, ep, reqs, d.PubsSnapshot(), detail)
	if !d.CloseAndWait() {
		c.Spoiled()
	}
	c.Count("packets_decoded", packets)
	c.Count("trailing_fragments", frags)
	c.Count("torn_acknowledgement_cases", 1)
	w.Mu.Lock()
	hit := torn && stalled
	w.Mu.Unlock()
	if hit {
		c.Trigger(fmt.Sprintf("torn-ack|%s|queued=%d", wire.TypeName(wantAck), nreq))
	}
	c.Sample(map[string]any{"scenario": "acknowledgement torn, then stalled, with requests queued", "acknowledgement": wire.TypeName(wantAck), "queued_requests": nreq, "packets_decoded": packets})
}

func init() {
	run.Register(&run.Prop{
		ID:    "C08",
		Level: "fault_enumeration",
		Cases: func(tier string) int {
			if tier == "thorough" {
				return 12000
			}
			return 2400
		},
		ChunkSize:   40,
		Rule:        "each case draws a Config (user name, password nil/empty/set, will, keep-alive: the CONNECT that opens every connection) and runs 1-12 goroutines issuing Publish/PublishRetained (header+payload vectored), Subscribe/Unsubscribe/Ping (single buffer) and persisted publishes while the reference broker sends QoS 1/2 messages (so the read routine writes acknowledgements) and connections get replaced (resend); the scripted connection splits writes: accepted byte counts 0, 1, len-1 and PRNG values followed by a deadline expiry (the call continues when a byte was accepted) or a hard error, several splits per packet, spanning the header/payload boundary. Oracle per connection: the byte log decodes (independent codec) into complete packets, each equal byte for byte to the reference encoding of an issued request, a stored record or an owed acknowledgement, optionally followed by ONE incomplete packet that is a true prefix of an issued packet and ends the log; a request that returned nil has its packet in full on some connection. One case in 12 tears the read routine's own acknowledgement (expiry after 1-3 bytes, then an expiry without progress, so the connection stays writable) while 1-3 requests wait on the write lock and the read routine is delayed at the entry of its way offline. One case in 12 replaces the scripted connection by AF_UNIX socket pairs (the net.Buffers writev path) whose peer reads slowly and stalls beyond PauseTimeout: every byte the kernel accepted is read back and must decode into whole packets with byte-exact payloads, a Publish that returned nil must be there in full, a trailing fragment must be a prefix of an issued packet. Non-trivial: at least one write split by the script (sockets: at least one partial write continued after an expiry, seen through a note hook); distinct by goroutines, split kinds fired and connections.",
		Assumptions: []string{"a failed Write reports fewer bytes than given; an expiry is only scripted under an armed write deadline", "1 case in 12 runs over AF_UNIX socket pairs with small kernel buffers, a slow reader and a PauseTimeout of 3-22 ms (genuine partial write/writev results and expiries); its oracle looks at bytes only and asserts nothing about timing"},
		Run: func(c *run.Ctx) {
			if c.Case%12 == 5 {
				c08Socket(c)
				return
			}
			if c.Case%12 == 7 {
				c08TornAck(c)
				return
			}
			ep := newEpisode(c)
			defer ep.W.Shutdown()
			w := ep.W
			f := ep.F
			f.Budget = c.Rng.Intn(5)
			f.PShortWrite = 0.1 + 0.5*c.Rng.Float64()
			f.PWriteFail = 0.08 * c.Rng.Float64()
			f.PFragment = 0.3
			f.PReadFail = 0.02 * c.Rng.Float64()
			ep.Cfg.AtLeastOnceMax, ep.Cfg.ExactlyOnceMax = 64, 64
			// the first packet of every connection comes from the Config
			ep.Cfg.UserName = []string{"", "", "u", strings.Repeat("n", 200)}[c.Rng.Intn(4)]
			ep.Cfg.Password = [][]byte{nil, nil, {}, []byte("secret"), make([]byte, 300)}[c.Rng.Intn(5)]
			if c.Rng.Intn(3) == 0 {
				ep.Cfg.Will.Topic = "will/" + strings.Repeat("w", c.Rng.Intn(150))
				ep.Cfg.Will.Message = [][]byte{{}, []byte("gone"), make([]byte, 500)}[c.Rng.Intn(3)]
				ep.Cfg.Will.Retain = c.Rng.Intn(2) == 0
				ep.Cfg.Will.AtLeastOnce = c.Rng.Intn(2) == 0
			}
			ep.Cfg.KeepAlive = uint16([]int{0, 1, 60, 65535}[c.Rng.Intn(4)])
			w.PointPlan = func(w *sim.World, point string, n int) sim.PointAction {
				if strings.HasPrefix(point, "write.") || point == "toOffline.locked" || point == "connect.resent" {
					switch w.Rng.Intn(4) {
					case 0:
						return sim.PointAction{Yield: true}
					case 1:
						return sim.PointAction{Sleep: 20_000}
					}
				}
				return sim.PointAction{}
			}
			if err := ep.Init(); err != nil {
				c.Violate("init-failed", err.Error(), nil)
				return
			}
			d := ep.D
			d.StartReader()
			g := 1 + c.Rng.Intn(12)
			var mu sync.Mutex
			var reqs []*reqRec
			var wg sync.WaitGroup
			for gi := 0; gi < g; gi++ {
				n := 3 + c.Rng.Intn(10)
				rng := rand.New(rand.NewSource(c.Rng.Int63()))
				wg.Add(1)
				go func(gi int) {
					defer wg.Done()
					for i := 0; i < n; i++ {
						tag := fmt.Sprintf("%d-%d", gi, i)
						r := &reqRec{}
						switch k := rng.Intn(10); {
						case k < 4:
							r.Kind, r.Topic, r.Retain = "publish", "p/"+tag, rng.Intn(4) == 0
							r.Payload = sim.MarkerPayload(gi*100+i, []int{0, 1, 5, 100, 127, 128, 300, 2000}[rng.Intn(8)])
							mu.Lock()
							reqs = append(reqs, r)
							mu.Unlock()
							if r.Retain {
								r.Call = d.Do("PublishRetained", func() error { return d.C.PublishRetained(nil, r.Payload, r.Topic) })
							} else {
								r.Call = d.Do("Publish", func() error { return d.C.Publish(nil, r.Payload, r.Topic) })
							}
						case k < 6:
							r.Kind, r.MaxQoS = "subscribe", byte(rng.Intn(3))
							for j := 0; j <= rng.Intn(3); j++ {
								r.Filters = append(r.Filters, fmt.Sprintf("s/%s/%d", tag, j))
							}
							mu.Lock()
							reqs = append(reqs, r)
							mu.Unlock()
							fn := d.C.Subscribe
							if r.MaxQoS == 0 {
								fn = d.C.SubscribeLimitAtMostOnce
							} else if r.MaxQoS == 1 {
								fn = d.C.SubscribeLimitAtLeastOnce
							}
							r.Call = d.Do("Subscribe", func() error { return fn(nil, r.Filters...) })
						case k < 7:
							r.Kind = "unsubscribe"
							r.Filters = []string{"u/" + tag}
							mu.Lock()
							reqs = append(reqs, r)
							mu.Unlock()
							r.Call = d.Do("Unsubscribe", func() error { return d.C.Unsubscribe(nil, r.Filters...) })
						case k < 8:
							r.Kind = "ping"
							mu.Lock()
							reqs = append(reqs, r)
							mu.Unlock()
							r.Call = d.Do("Ping", func() error { return d.C.Ping(nil) })
						case k < 9:
							d.Publish(1+rng.Intn(2), rng.Intn(4) == 0, []int{0, 3, 130, 1000}[rng.Intn(4)])
						default:
							w.Broker.Publish(fmt.Sprintf("in/%d/%s", 1, tag), []byte("x"), byte(1+rng.Intn(2)), false)
						}
					}
				}(gi)
			}
			done := make(chan struct{})
			go func() { wg.Wait(); close(done) }()
			detail := func() map[string]any {
				return map[string]any{"goroutines": g, "faults": f.Fired, "trace_tail": w.TraceTail(traceN(c))}
			}
			finished := w.WaitUntil(sim.StepTimeout, func() bool {
				select {
				case <-done:
					return true
				default:
					return false
				}
			})
			if !finished {
				wedged, report := w.Diagnose(1500e6)
				select {
				case <-done:
					finished = true
				default:
				}
				if !finished {
					if wedged {
						mu.Lock()
						snapshot := append([]*reqRec(nil), reqs...)
						mu.Unlock()
						for _, r := range snapshot {
							r.Call = nil // still in use by its goroutine
						}
						checkWholePackets(c, ep, snapshot, d.PubsSnapshot(), detail)
						dt := detail()
						dt["report"] = report
						c.Violate("requests-never-return", "request goroutines stuck with the read routine running", dt)
					} else {
						c.Inconclusive("requests slow to return: " + firstLine(report))
					}
					c.Spoiled()
					return
				}
			}
			f.Heal(w)
			w.Broker.ReleaseHeld()
			if st, report := ep.awaitOrDiagnose("persisted publishes complete", d.AllClosed); st != "" {
				if st == "wedged" {
					dt := detail()
					dt["report"] = report
					c.Violate("no-progress-after-faults-stopped", "persisted publishes did not complete", dt)
				} else {
					c.Inconclusive("slow drain")
				}
				c.Spoiled()
				return
			}
			w.WaitIdle(sim.StepTimeout)
			packets, frags := checkWholePackets(c, ep, reqs, d.PubsSnapshot(), detail)
			if !d.CloseAndWait() {
				c.Spoiled()
			}
			splits := f.Fired["write.short"] + f.Fired["write.fail"]
			c.Count("packets_decoded", packets)
			c.Count("trailing_fragments", frags)
			c.Count("writes_split", splits)
			c.Count("connections", len(w.Conns))
			c.Count("requests", len(reqs))
			if splits > 0 {
				c.Trigger(fmt.Sprintf("g=%d|short=%d|fail=%d|conns=%d", min(g, 6), min(f.Fired["write.short"], 5), min(f.Fired["write.fail"], 3), min(len(w.Conns), 4)))
			}
			c.Sample(map[string]any{"goroutines": g, "requests": len(reqs), "packets_decoded": packets, "writes_split": splits, "connections": len(w.Conns)})
		},
	})
}
