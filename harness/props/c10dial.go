package props

import (
	"crypto/tls"
	"errors"
	"fmt"
	"net"
	"strings"
	"sync"
	"time"

	"github.com/pascaldekloe/mqtt"

	"verif/run"
	"verif/sim"
)

// c10BuiltinDialers runs the package's own Dialers (NewDialer, NewTLSDialer)
// against real loopback endpoints that misbehave at the connection set-up: a
// listener that accepts and stays silent (the TLS handshake, respectively the
// CONNACK, never comes), one that accepts and closes, one that is gone. With
// PauseTimeout configured ReadSlices comes back with an error every time and
// dials again on the next invocation.
func c10BuiltinDialers(c *run.Ctx, useTLS bool, endpoint string) {
	label := fmt.Sprintf("NewDialer against a listener that %s", endpoint)
	if useTLS {
		label = fmt.Sprintf("NewTLSDialer against a listener that %s", endpoint)
	}
	ln, err := net.Listen("tcp", "127.0.0.1:0")
	if err != nil {
		c.Inconclusive("no loopback listener: " + err.Error())
		return
	}
	addr := ln.Addr().String()
	var mu sync.Mutex
	var held []net.Conn
	accepted := 0
	stop := make(chan struct{})
	go func() {
		for {
			cn, err := ln.Accept()
			if err != nil {
				return
			}
			mu.Lock()
			accepted++
			switch endpoint {
			case "accepts and closes":
				cn.Close()
			default:
				held = append(held, cn) // silent
			}
			mu.Unlock()
		}
	}()
	defer func() {
		close(stop)
		ln.Close()
		mu.Lock()
		for _, cn := range held {
			cn.Close()
		}
		mu.Unlock()
	}()
	if endpoint == "is gone" {
		ln.Close()
	}
	var dialer mqtt.Dialer
	if useTLS {
		dialer = mqtt.NewTLSDialer("tcp", addr, &tls.Config{InsecureSkipVerify: true})
	} else {
		dialer = mqtt.NewDialer("tcp", addr)
	}
	const pause = 150 * time.Millisecond
	cl, err := mqtt.VolatileSession("c10-dial", &mqtt.Config{Dialer: dialer, PauseTimeout: pause, ReconnectWaitMin: time.Millisecond})
	if err != nil {
		c.Violate("init-failed", err.Error(), nil)
		return
	}
	attempts := 3
	for i := 0; i < attempts; i++ {
		ret := make(chan error, 1)
		go func() {
			_, _, err := cl.ReadSlices()
			ret <- err
		}()
		select {
		case err := <-ret:
			if err == nil {
				c.Violate("connect-succeeded-without-broker", label+": ReadSlices returned a message", nil)
				cl.Close()
				return
			}
			if errors.Is(err, mqtt.ErrClosed) {
				c.Violate("errclosed-without-close", label+": ReadSlices reported ErrClosed", nil)
				return
			}
			c.Count("failed_connects_through_builtin_dialers", 1)
		case <-time.After(40 * pause):
			// forty times the timeout: slow, or for good? Stacks that stay the same
			// over the window while the process gets processor time are for good.
			s1 := strings.Join(sim.MqttStacks(), "\n")
			starved := sim.Starved(1500 * time.Millisecond)
			s2 := strings.Join(sim.MqttStacks(), "\n")
			select {
			case <-ret:
				c.Inconclusive(label + ": connect attempt slow")
			default:
				if !starved && s1 == s2 {
					c.Violate("read-routine-wedged", fmt.Sprintf("%s: ReadSlices (attempt %d) neither connects nor fails, %v after a PauseTimeout of %v", label, i+1, 40*pause+1500*time.Millisecond, pause), map[string]any{"stacks": s2})
				} else {
					c.Inconclusive(label + ": connect attempt slow on a loaded machine")
				}
			}
			c.Spoiled()
			go cl.Close()
			return
		}
	}
	if endpoint != "is gone" {
		mu.Lock()
		n := accepted
		mu.Unlock()
		if n < attempts {
			c.Violate("no-redial", fmt.Sprintf("%s: %d ReadSlices invocations failed yet the listener saw %d connections", label, attempts, n), nil)
		}
	}
	cl.Close()
	for i := 0; i < 3; i++ {
		if _, _, err := cl.ReadSlices(); errors.Is(err, mqtt.ErrClosed) {
			break
		}
	}
	c.Trigger(fmt.Sprintf("builtin-dialer|tls=%v|%s", useTLS, endpoint))
}
