package props

import (
	"bytes"
	"encoding/binary"
	"errors"
	"fmt"
	"hash/fnv"
	"io"
	"net"
	"runtime"
	"strings"
	"time"

	"github.com/pascaldekloe/mqtt"

	"verif/run"
	"verif/sim"
	"verif/wire"
)

// refEncode is the documented layout, written independently:
// packet ‖ LE64(seq) ‖ BE32(FNV-1a(packet ‖ LE64(seq))).
func refEncode(packet []byte, seq uint64) []byte {
	out := append([]byte{}, packet...)
	var s [8]byte
	binary.LittleEndian.PutUint64(s[:], seq)
	out = append(out, s[:]...)
	h := fnv.New32a()
	h.Write(out)
	var d [4]byte
	binary.BigEndian.PutUint32(d[:], h.Sum32())
	return append(out, d[:]...)
}

func flatten(b net.Buffers) []byte {
	var out []byte
	for _, x := range b {
		out = append(out, x...)
	}
	return out
}

var seqNos = []uint64{0, 1, 2, 255, 256, 1<<32 - 1, 1 << 32, 1<<32 + 1, 1 << 63, 1<<64 - 1}

// codecPart: round trip, layout, exhaustive single-byte damage, truncation.
func codecPart(c *run.Ctx, sizes []int, exhaustiveUpTo int) {
	decodes, rejected, truncs := 0, 0, 0
	multiTotal, multiMissed := 0, 0
	for _, n := range sizes {
		packet := make([]byte, n)
		c.Rng.Read(packet)
		if n > 0 {
			packet[0] = 0x32 // looks like a PUBLISH
		}
		seq := seqNos[c.Rng.Intn(len(seqNos))]
		// split into 1-3 buffers as the client does
		var bufs net.Buffers
		switch k := c.Rng.Intn(3); {
		case k == 0 || n < 2:
			bufs = net.Buffers{packet}
		case k == 1:
			cut := 1 + c.Rng.Intn(n-1)
			bufs = net.Buffers{packet[:cut:cut], packet[cut:]}
		default:
			cut := c.Rng.Intn(n)
			bufs = net.Buffers{packet[:cut:cut], {}, packet[cut:]}
		}
		enc := flatten(mqtt.VerifEncodeValue(bufs, seq))
		want := refEncode(packet, seq)
		if !bytes.Equal(enc, want) {
			c.Violate("layout-differs", fmt.Sprintf("packet of %d bytes, sequence number %#x: stored %x…, documented layout gives %x…", n, seq, head(enc[n:], 12), head(want[n:], 12)), nil)
			return
		}
		p2, s2, err := mqtt.VerifDecodeValue(append([]byte{}, enc...))
		decodes++
		if err != nil || s2 != seq || !bytes.Equal(p2, packet) {
			c.Violate("round-trip-fails", fmt.Sprintf("packet of %d bytes, sequence number %#x: decode gives %d bytes, %#x, %v", n, seq, len(p2), s2, err), nil)
			return
		}
		// every truncation
		for l := 0; l < len(enc); l++ {
			if l >= 12 && len(enc) > 80 && l%(7+len(enc)/60) != 0 {
				continue
			}
			_, _, err := mqtt.VerifDecodeValue(append([]byte{}, enc[:l]...))
			decodes++
			truncs++
			if l < 12 && err == nil {
				c.Violate("short-value-accepted", fmt.Sprintf("a stored value truncated to %d bytes (below 12) decodes without error", l), nil)
				return
			}
			if l >= 12 {
				multiTotal++
				if err == nil {
					multiMissed++
				}
			}
		}
		// single-byte damage
		stride := 1
		if len(enc) > exhaustiveUpTo+12 {
			stride = 1 + len(enc)/97
			if len(enc) > 5000 {
				stride = 1 + len(enc)/29
			}
		}
		work := append([]byte{}, enc...)
		for pos := 0; pos < len(enc); pos++ {
			if stride > 1 && pos%stride != 0 && pos < len(enc)-13 && pos > 2 {
				continue
			}
			orig := work[pos]
			for v := 0; v < 256; v++ {
				if byte(v) == orig {
					continue
				}
				if stride > 1 && v%5 != int(orig)%5 || len(enc) > 5000 && v%41 != int(orig)%41 {
					continue
				}
				work[pos] = byte(v)
				_, _, err := mqtt.VerifDecodeValue(work)
				decodes++
				if err == nil {
					c.Violate("single-byte-damage-undetected", fmt.Sprintf("record of %d bytes (sequence number %#x): byte %d changed from %#02x to %#02x decodes without error", len(enc), seq, pos, orig, v), nil)
					return
				}
				rejected++
			}
			work[pos] = orig
		}
		// 2-4 byte damage is measured, not claimed
		for i := 0; i < 200 && len(enc) > 4; i++ {
			k := 2 + c.Rng.Intn(3)
			copy(work, enc)
			for j := 0; j < k; j++ {
				work[c.Rng.Intn(len(work))] ^= byte(1 + c.Rng.Intn(255))
			}
			if bytes.Equal(work, enc) {
				continue
			}
			_, _, err := mqtt.VerifDecodeValue(work)
			multiTotal++
			if err == nil {
				multiMissed++
			}
		}
		c.Trigger(fmt.Sprintf("codec|size=%d|seq=%#x|bufs=%d", n, seq, len(bufs)))
	}
	c.Count("decodes", decodes)
	c.Count("single_byte_mutations_rejected", rejected)
	c.Count("truncations_tried", truncs)
	c.Count("multi_byte_or_long_truncation_tried", multiTotal)
	c.Count("multi_byte_or_long_truncation_undetected", multiMissed)
	c.Sample(map[string]any{"part": "codec", "sizes": sizes, "decodes": decodes})
}

// layoutPart: every raw value the client hands to Save during a concurrent
// publish workload has the documented layout, strictly increasing sequence
// numbers, and a packet part equal to what goes on the wire.
func layoutPart(c *run.Ctx) {
	ep := newEpisode(c)
	defer ep.W.Shutdown()
	w := ep.W
	faultMix(c, ep.F, c.Rng.Intn(4))
	ep.F.PStoreFail = 0
	if c.Rng.Intn(2) == 0 {
		// Load hands out the stored slice itself: the records must stay what was saved
		w.Store.AliasLoad = true
	}
	ep.Cfg.AtLeastOnceMax, ep.Cfg.ExactlyOnceMax = 64, 64
	type saved struct {
		key uint
		raw []byte
	}
	var saves []saved
	w.Store.OnSave = func(key uint, raw []byte) { saves = append(saves, saved{key, append([]byte{}, raw...)}) }
	w.Store.PreCopy = func() {
		switch time.Now().UnixNano() % 3 {
		case 0:
			runtime.Gosched()
		case 1:
			time.Sleep(30 * time.Microsecond)
		}
	}
	if err := ep.Init(); err != nil {
		c.Violate("init-failed", err.Error(), nil)
		return
	}
	d := ep.D
	d.StartReader()
	g := 2 + c.Rng.Intn(5)
	done := make(chan struct{}, g)
	for i := 0; i < g; i++ {
		lvl := 1 + i%2
		n := 3 + c.Rng.Intn(8)
		size := []int{0, 5, 100, 200, 3000}[c.Rng.Intn(5)]
		go func() {
			defer func() { done <- struct{}{} }()
			for j := 0; j < n; j++ {
				d.Publish(lvl, j%3 == 0, size)
			}
		}()
		// inbound exactly-once traffic makes the read routine save markers concurrently
		w.Broker.Publish(fmt.Sprintf("in/2/%d", i), []byte("x"), 2, false)
	}
	for i := 0; i < g; i++ {
		<-done
	}
	if w.Store.AliasLoad {
		// two connection losses with transfers pending: the records get loaded and resent twice
		w.Mu.Lock()
		ep.F.PHold = 1
		w.Mu.Unlock()
		d.Publish(1, false, 10)
		d.Publish(2, false, 10)
		for k := 0; k < 2; k++ {
			w.WaitIdle(sim.StepTimeout)
			n := w.PointCount("connect.resent")
			if cn := w.CurConn(); cn != nil {
				cn.EndInbound(-1, io.EOF)
			}
			w.WaitUntil(sim.StepTimeout, func() bool { return w.PointCountLocked("connect.resent") > n })
		}
	}
	ep.F.Heal(w)
	w.Broker.ReleaseHeld()
	reportModified := func() bool {
		w.Mu.Lock()
		defer w.Mu.Unlock()
		w.Store.CheckPristine()
		for _, m := range w.Store.Modified {
			c.Violate("stored-record-modified-in-place", m, nil)
			return true
		}
		return false
	}
	if st, report := ep.awaitOrDiagnose("publishes complete", d.AllClosed); st != "" {
		if reportModified() {
			d.CloseAndWait()
			c.Spoiled()
			return
		}
		c.Inconclusive("layout episode did not complete: " + firstLine(report))
		c.Spoiled()
		return
	}
	w.WaitIdle(sim.StepTimeout)
	w.Mu.Lock()
	// what went on the wire per identifier
	wirePackets := map[string]bool{}
	for _, cn := range w.Conns {
		pk, _, _ := wire.ParseStream(cn.Out, true)
		for _, p := range pk {
			raw := append([]byte{}, p.Raw...)
			if p.Type == wire.PUBLISH {
				raw[0] &^= 8
			}
			wirePackets[string(raw)] = true
		}
	}
	if w.Store.AliasLoad {
		c.Count("episodes_on_aliasing_store", 1)
	}
	w.Store.CheckPristine()
	for _, m := range w.Store.Modified {
		c.Violate("stored-record-modified-in-place", m, nil)
		break
	}
	var lastSeq uint64
	first := true
	checked := 0
	for _, s := range saves {
		if len(s.raw) < 12 {
			c.Violate("stored-value-too-short", fmt.Sprintf("Save(%#x) got %d bytes", s.key, len(s.raw)), nil)
			break
		}
		packet := s.raw[:len(s.raw)-12]
		seq := binary.LittleEndian.Uint64(s.raw[len(s.raw)-12:])
		if want := refEncode(packet, seq); !bytes.Equal(want, s.raw) {
			c.Violate("stored-value-layout", fmt.Sprintf("Save(%#x): checksum %x does not match the documented layout (%x) for sequence number %d", s.key, s.raw[len(s.raw)-4:], want[len(want)-4:], seq), nil)
			break
		}
		_ = first
		_ = lastSeq
		checked++
		switch {
		case s.key == 0:
			if string(packet) != "verif-client" {
				c.Violate("client-identifier-record", fmt.Sprintf("record 0 holds %q", packet), nil)
			}
		case s.key >= 0x8000 && s.key <= 0xffff:
			pk, err := wire.Decode(packet, true)
			if err != nil || uint(pk.ID) != s.key {
				c.Violate("stored-packet-mismatch", fmt.Sprintf("Save(%#x) holds a packet that does not decode to that identifier: %v", s.key, err), nil)
				break
			}
			if !wirePackets[string(packet)] {
				// the write may have failed for good only when the client got closed; here all completed
				c.Violate("stored-packet-never-on-wire", fmt.Sprintf("Save(%#x) holds %s which never appeared on a connection although the transfer completed", s.key, pk), nil)
			}
		case s.key >= 0x10000:
			if len(packet) != 4 || packet[0] != wire.PUBREC<<4 || uint(packet[2])<<8|uint(packet[3]) != s.key&0xffff {
				c.Violate("marker-record", fmt.Sprintf("Save(%#x) holds %x", s.key, packet), nil)
			}
		}
	}
	// sequence numbers: unique, and increasing in completion order per key
	seen := map[uint64]uint{}
	for _, s := range saves {
		seq := binary.LittleEndian.Uint64(s.raw[len(s.raw)-12:])
		if k, dup := seen[seq]; dup {
			c.Violate("sequence-number-reused", fmt.Sprintf("storage sequence number %d used for records %#x and %#x", seq, k, s.key), nil)
			break
		}
		seen[seq] = s.key
	}
	w.Mu.Unlock()
	if !d.CloseAndWait() {
		c.Spoiled()
	}
	c.Count("raw_values_checked_at_save", checked)
	c.Trigger(fmt.Sprintf("layout|g=%d|saves=%d", g, min(checked/8, 8)))
	c.Sample(map[string]any{"part": "layout at the Save boundary", "goroutines": g, "values_checked": checked})
}

// damagePart: single-byte damage and truncation of each kind of record in a
// real store, then AdoptSession and a connection: never used, always reported.
func damagePart(c *run.Ctx) {
	// build a store with every kind of record
	ep := newEpisode(c)
	w := ep.W
	ep.F.Off = true
	if err := ep.Init(); err != nil {
		c.Violate("init-failed", err.Error(), nil)
		return
	}
	w.Mu.Lock()
	w.Broker.HoldPubrel = true // the reception marker stays: the cycle is not ended
	w.Broker.AckPolicy = func(b *sim.Broker, cn *sim.Conn, p *wire.Packet, reply []byte) string {
		if reply[0]>>4 == wire.PUBACK || reply[0]>>4 == wire.PUBCOMP {
			return "hold"
		}
		return ""
	}
	w.Mu.Unlock()
	d := ep.D
	d.StartReader()
	d.Publish(1, false, 9)
	d.Publish(2, false, 7) // gets PUBREC, stays as PUBREL
	d.Publish(2, true, 30)
	w.Broker.Publish("in/2/1", []byte("owned"), 2, false)
	w.WaitIdle(sim.StepTimeout)
	// the marker is saved once the application called ReadSlices again, which
	// the read loop did; the broker's PUBREL must not end the cycle yet
	base := w.Store.Content()
	brokerState := func() sim.BrokerState {
		w.Mu.Lock()
		defer w.Mu.Unlock()
		return w.Broker.State.Clone()
	}()
	d.CloseAndWait()
	w.Shutdown()

	kinds := map[string]uint{}
	for k, v := range base {
		switch {
		case k == 0:
			kinds["client-identifier"] = k
		case k >= 0x10000:
			kinds["inbound-marker"] = k
		default:
			if pk, err := wire.Decode(stripTrailer(v), true); err == nil {
				if pk.Type == wire.PUBREL {
					kinds["PUBREL"] = k
				} else if _, ok := kinds["PUBLISH"]; !ok {
					kinds["PUBLISH"] = k
				}
			}
		}
	}
	if len(kinds) < 4 {
		c.Inconclusive(fmt.Sprintf("base store has only %d kinds of records: %v", len(kinds), kinds))
		return
	}
	tried := 0
	perKind := 6
	if c.Tier == "thorough" {
		perKind = 40
	}
	for kind, key := range kinds {
		orig := base[key]
		for i := 0; i < perKind; i++ {
			damaged := append([]byte{}, orig...)
			how := ""
			if i%3 == 2 {
				l := []int{0, 1, 11, 12, len(orig) - 1, len(orig) / 2}[c.Rng.Intn(6)]
				if l < 0 || l >= len(orig) {
					l = 0
				}
				if l >= 12 {
					continue // longer truncations are measured in the codec part only
				}
				damaged = damaged[:l]
				how = fmt.Sprintf("truncated to %d bytes", l)
			} else {
				pos := c.Rng.Intn(len(orig))
				v := byte(1 + c.Rng.Intn(255))
				damaged[pos] ^= v
				how = fmt.Sprintf("byte %d changed from %#02x to %#02x", pos, orig[pos], damaged[pos])
			}
			tried++
			if !adoptDamaged(c, base, brokerState, key, kind, damaged, how) {
				return
			}
			c.Trigger(fmt.Sprintf("damage|%s|%s", kind, strings.SplitN(how, " ", 2)[0]))
		}
	}
	c.Count("damaged_stores_adopted", tried)
	c.Sample(map[string]any{"part": "single-byte damage end to end", "record_kinds": len(kinds), "damaged_stores": tried})
}

func adoptDamaged(c *run.Ctx, base map[uint][]byte, bs sim.BrokerState, key uint, kind string, damaged []byte, how string) bool {
	w := sim.NewWorld(c.Rng.Int63())
	defer w.Shutdown()
	sim.InstallHooks(w)
	content := map[uint][]byte{}
	for k, v := range base {
		content[k] = v
	}
	content[key] = damaged
	w.Store.Plant(content)
	// whatever gets saved on the way, by AdoptSession too, has the documented layout
	var badLayout []string
	w.Store.OnSave = func(k uint, raw []byte) {
		if len(raw) < 12 {
			badLayout = append(badLayout, fmt.Sprintf("Save(%#x) got %d bytes: %x", k, len(raw), raw))
			return
		}
		seq := binary.LittleEndian.Uint64(raw[len(raw)-12:])
		if want := refEncode(raw[:len(raw)-12], seq); !bytes.Equal(want, raw) {
			badLayout = append(badLayout, fmt.Sprintf("Save(%#x): trailer %x does not match the documented layout", k, raw[len(raw)-12:]))
		}
	}
	w.Mu.Lock()
	w.Broker.State = bs.Clone()
	w.Mu.Unlock()
	desc := fmt.Sprintf("%s record %#x %s", kind, key, how)
	cfg := mqtt.Config{Dialer: w.Dialer(), PauseTimeout: time.Hour, ReconnectWaitMin: time.Microsecond, AtLeastOnceMax: -1, ExactlyOnceMax: -1}
	cl, warn, fatal := mqtt.AdoptSession(w.Store, &cfg)
	if fatal != nil {
		// reported, and certainly not used
		return true
	}
	d := sim.NewDriver(w, cl, nil, 1)
	d.MaxErrs = 4
	d.StartReader()
	w.WaitUntil(2*time.Second, func() bool { return w.PointCountLocked("connect.resent") > 0 || d.ReadCount() >= 3 })
	w.WaitIdle(2 * time.Second)
	reads := d.ReadsSnapshot()
	reported := len(warn) != 0
	for _, r := range reads {
		if r.Err != nil && !r.Big && !errors.Is(r.Err, mqtt.ErrClosed) {
			reported = true
		}
	}
	ok := true
	w.Mu.Lock()
	for _, b := range badLayout {
		c.Violate("stored-value-layout", desc+": "+b, nil)
		ok = false
	}
	// what the undamaged records look like
	good := map[string]bool{}
	for k, v := range base {
		if k != key && k >= 0x8000 && k <= 0xffff {
			p := append([]byte{}, stripTrailer(v)...)
			if len(p) > 0 && p[0]>>4 == wire.PUBLISH {
				p[0] &^= 8
			}
			good[string(p)] = true
		}
	}
	origPacket := stripTrailer(base[key])
	for _, cn := range w.Conns {
		pk, _, _ := wire.ParseStream(cn.Out, true)
		for _, p := range pk {
			switch p.Type {
			case wire.CONNECT:
				if p.Connect.ClientID != "verif-client" {
					c.Violate("damaged-record-used", fmt.Sprintf("%s: CONNECT carries client identifier %q", desc, p.Connect.ClientID), nil)
					ok = false
				}
			case wire.PUBLISH, wire.PUBREL:
				raw := append([]byte{}, p.Raw...)
				if p.Type == wire.PUBLISH {
					raw[0] &^= 8
				}
				if !good[string(raw)] {
					o := append([]byte{}, origPacket...)
					if len(o) > 0 {
						o[0] &^= 8
					}
					c.Violate("damaged-record-used", fmt.Sprintf("%s: the connection carries %s which matches no undamaged record (same as the original of the damaged one: %v)", desc, p, bytes.Equal(o, raw)), nil)
					ok = false
				}
			}
		}
	}
	w.Mu.Unlock()
	if !reported && kind != "inbound-marker" {
		c.Violate("damage-not-reported", fmt.Sprintf("%s: AdoptSession gave no warning and ReadSlices no error", desc), nil)
		ok = false
	}
	if kind == "inbound-marker" && !reported {
		// the marker is only read when the broker retransmits its PUBLISH, which
		// the reference broker does on this first connection
		c.Violate("damage-not-reported", fmt.Sprintf("%s: neither a warning nor a ReadSlices error although the broker retransmitted that PUBLISH", desc), nil)
		ok = false
	}
	if !d.CloseAndWait() {
		c.Spoiled()
		return false
	}
	return ok
}

func init() {
	run.Register(&run.Prop{
		ID:    "C15",
		Level: "exploration",
		Cases: func(tier string) int {
			if tier == "thorough" {
				return 1200
			}
			return 300
		},
		ChunkSize:   6,
		Rule:        "three monitors by case number. (codec) through the read-only exports: packets of 0-64 bytes (all sizes, several per run) and larger ones up to multi-buffer, split into 1-3 buffers, x sequence numbers {0,1,2,255,256,2^32-1,2^32,2^32+1,2^63,2^64-1}: encoded bytes equal an independent encoder of the documented layout, exact round trip, EVERY byte position x ALL 255 other values must be rejected (exhaustive for records <= 76 bytes, strided above), every truncation below 12 bytes rejected; longer truncations and 2-4 byte damage are measured only. (layout) every raw value handed to Persistence.Save during a concurrent publish/receive episode with connection losses (half of the episodes on a store whose Load hands out the stored slice itself: the stored bytes must stay what was saved) (2-6 goroutines on both levels, scheduling noise at the entry of Save, race detector on) is checked against the independent encoder, its packet part against the wire, sequence numbers unique. (damage) a real store holding a client identifier, PUBLISH, PUBREL and inbound marker record gets one byte altered or a truncation below 12 bytes, then AdoptSession and a first connection against the reference broker: the damaged bytes never appear in CONNECT or as a packet, and the damage is reported (warning, fatal, or ReadSlices error). Every third of those cases alters the record of a pending transfer, or the client identifier, under a running client that loaded it before: what the next reconnect emits is the record as saved or nothing. Distinct by (part, size, sequence number, record kind, damage kind).",
		Assumptions: []string{"FNV-1a detects every single-byte change by construction; the enumeration confirms the implementation, it is complete for the sizes listed", "multi-byte damage is not claimed: 32-bit checksum"},
		Run: func(c *run.Ctx) {
			switch c.Case % 3 {
			case 0:
				// spread sizes 0..64 over the codec cases, plus large ones
				k := c.Case / 3
				var sizes []int
				for n := k % 5; n <= 64; n += 5 {
					sizes = append(sizes, n)
				}
				sizes = append(sizes, []int{127, 128, 129, 1000, 70000, 140000}[k%6])
				codecPart(c, sizes, 64)
			case 1:
				layoutPart(c)
			default:
				if c.Case%9 == 8 {
					liveDamage(c)
					return
				}
				damagePart(c)
			}
		},
		Finish: func(tier string, cov map[string]any) {
			if mc, ok := cov["monitor_counters"].(map[string]int); ok {
				if t := mc["multi_byte_or_long_truncation_tried"]; t > 0 {
					cov["multi_byte_undetected_fraction_measured"] = float64(mc["multi_byte_or_long_truncation_undetected"]) / float64(t)
				}
			}
		},
	})
}

// liveDamage alters a record under a running client that loaded it before:
// the next Load (the resend of the next reconnect, the client identifier of
// the next CONNECT) must notice, whatever the client remembers of the record.
func liveDamage(c *run.Ctx) {
	ep := newEpisode(c)
	w := ep.W
	defer w.Shutdown()
	ep.F.Off = true
	if err := ep.Init(); err != nil {
		c.Violate("init-failed", err.Error(), nil)
		return
	}
	w.Mu.Lock()
	w.Broker.AckPolicy = func(b *sim.Broker, cn *sim.Conn, p *wire.Packet, reply []byte) string { return "hold" }
	w.Mu.Unlock()
	d := ep.D
	d.StartReader()
	level := 1 + c.Rng.Intn(2)
	p := d.Publish(level, c.Rng.Intn(2) == 0, 20+c.Rng.Intn(40))
	if !p.Accepted() {
		c.Inconclusive("publish refused: " + p.Err.Error())
		d.CloseAndWait()
		return
	}
	reconnect := func(n int) bool {
		cn := w.CurConn()
		cn.EndInbound(-1, io.EOF)
		return w.WaitUntil(sim.StepTimeout, func() bool { return len(w.Conns) >= n && (w.Conns[n-1].Closed() || w.ReaderQuietLocked()) })
	}
	w.WaitReaderQuiet(sim.StepTimeout)
	// one reconnect with the record intact: it gets loaded and resent
	if !reconnect(2) || !w.WaitUntil(sim.StepTimeout, func() bool { return w.PointCountLocked("connect.resent") >= 2 && w.ReaderQuietLocked() }) {
		c.Inconclusive("first reconnect did not complete")
		c.Spoiled()
		return
	}
	// damage: the record of the pending transfer, or the client identifier
	content := w.Store.Content()
	key := uint(0)
	kind := "client-identifier"
	if c.Rng.Intn(3) != 0 {
		kind = "pending-transfer"
		for k := range content {
			if k >= 0x8000 && k <= 0xffff {
				key = k
			}
		}
	}
	orig := content[key]
	if len(orig) < 13 {
		c.Inconclusive("record too short")
		d.CloseAndWait()
		return
	}
	damaged := append([]byte{}, orig...)
	pos := c.Rng.Intn(len(orig) - 12) // inside the packet part: the damage would show on the wire
	damaged[pos] ^= byte(1 + c.Rng.Intn(255))
	content[key] = damaged
	w.Store.Plant(content)
	how := fmt.Sprintf("%s record %#x: byte %d changed from %#02x to %#02x while the client runs", kind, key, pos, orig[pos], damaged[pos])
	reads0 := d.ReadCount()
	conns0 := len(w.Conns)
	reconnect(conns0 + 1)
	// the damage is reported by ReadSlices
	if !w.WaitUntil(sim.StepTimeout, func() bool {
		for _, r := range d.ReadsSnapshot()[min(reads0, len(d.ReadsSnapshot())):] {
			if r.Err != nil && !errors.Is(r.Err, io.EOF) && !strings.Contains(r.Err.Error(), "EOF") {
				return true
			}
		}
		return false
	}) {
		// no report: then at least nothing damaged may have gone out; judged below
		c.Count("live_damage_not_reported", 1)
	}
	w.Mu.Lock()
	var bad []string
	for _, cn := range w.Conns[conns0:] {
		pk, rest, _ := wire.ParseStream(cn.Out, true)
		for _, q := range pk {
			switch {
			case q.Type == wire.CONNECT && key == 0 && q.Connect != nil && q.Connect.ClientID != string(stripTrailer(orig)):
				bad = append(bad, fmt.Sprintf("conn %d: CONNECT with client identifier %q", cn.Idx, q.Connect.ClientID))
			case (q.Type == wire.PUBLISH && q.QoS > 0 || q.Type == wire.PUBREL) && key != 0:
				want := append([]byte{}, stripTrailer(orig)...)
				got := append([]byte{}, q.Raw...)
				want[0] &^= 8
				got[0] &^= 8
				if uint(q.ID) == key && !bytes.Equal(want, got) {
					bad = append(bad, fmt.Sprintf("conn %d: %s differs from the record as saved", cn.Idx, q))
				}
			}
		}
		_ = rest
	}
	w.Mu.Unlock()
	for _, b := range bad {
		c.Violate("damaged-bytes-emitted", how+": "+b, map[string]any{"trace_tail": w.TraceTail(60)})
	}
	c.Count("records_damaged_under_a_running_client", 1)
	c.Trigger("live-damage|" + kind)
	// put the record back so that the client can end in order
	content[key] = orig
	w.Store.Plant(content)
	if !d.CloseAndWait() {
		c.Spoiled()
	}
}
