package props

import (
	"bytes"
	"errors"
	"fmt"
	"io"
	"strings"
	"time"

	"github.com/pascaldekloe/mqtt"

	"verif/run"
	"verif/sim"
	"verif/wire"
)

type attempt struct {
	Kind  string // dial-fail connect-write-fail connack-eof connack-refused connack-flags connack-sp-clean not-connack resend-fail success
	Arg   int    // byte offset, return code, flag byte, bytes before EOF
	Flags int    // flag byte next to a refusing return code
	Phase string // when a request gets issued: "" dial handshake resend after
	Long  bool   // hold the phase for 60 ms real time
	Req   string // Publish Subscribe Ping PublishAtLeastOnce
}

func (a attempt) String() string {
	if a.Flags != 0 {
		return fmt.Sprintf("%s(%d,flags=%#x)%s", a.Kind, a.Arg, a.Flags, map[bool]string{true: "+" + a.Req + "@" + a.Phase, false: ""}[a.Phase != ""])
	}
	return fmt.Sprintf("%s(%d)%s", a.Kind, a.Arg, map[bool]string{true: "+" + a.Req + "@" + a.Phase, false: ""}[a.Phase != ""])
}

func genHistory(c *run.Ctx) []attempt {
	r := c.Rng
	n := 1 + r.Intn(7)
	var h []attempt
	kinds := []string{"dial-fail", "connect-write-fail", "connack-eof", "connack-refused", "connack-flags", "connack-sp-clean", "not-connack", "resend-fail", "success", "success"}
	for i := 0; i < n; i++ {
		a := attempt{Kind: kinds[r.Intn(len(kinds))]}
		if i == n-1 {
			a.Kind = "success"
		}
		switch a.Kind {
		case "connect-write-fail":
			a.Arg = r.Intn(14)
		case "connack-eof":
			a.Arg = r.Intn(4)
		case "connack-refused":
			a.Arg = 1 + r.Intn(255)
			// a return code 1-255 is a refusal whatever the flag byte says
			a.Flags = []int{0, 0, 0, 1, 2, 0x80, 0xfe, 0xff}[r.Intn(8)]
		case "connack-flags":
			a.Arg = []int{2, 3, 0x80, 0xff, 0x10}[r.Intn(5)]
		case "resend-fail":
			a.Arg = r.Intn(10)
		}
		if r.Intn(2) == 0 {
			a.Phase = []string{"dial", "handshake", "resend", "after"}[r.Intn(4)]
			a.Req = []string{"Publish", "Subscribe", "Ping", "PublishAtLeastOnce"}[r.Intn(4)]
			a.Long = r.Intn(5) == 0
		}
		h = append(h, a)
	}
	return h
}

func runHistory(c *run.Ctx, h []attempt, cc configCase, pending int) {
	w := sim.NewWorld(c.Rng.Int63())
	defer w.Shutdown()
	sim.InstallHooks(w)
	w.RequireDeadlines = true
	w.DataCap = 96
	cfg := cc.Cfg
	cfg.Dialer = w.Dialer()
	cfg.PauseTimeout = time.Hour
	cfg.ReconnectWaitMin = time.Microsecond
	cfg.AtLeastOnceMax, cfg.ExactlyOnceMax = 16, 16
	cl, err := mqtt.InitSession(cc.ClientID.S, w.Store, &cfg)
	if err != nil {
		c.Violate("init-failed", err.Error(), nil)
		return
	}
	d := sim.NewDriver(w, cl, nil, 0)
	d.Manual = true
	var hist []string
	for _, a := range h {
		hist = append(hist, a.String())
	}
	detail := func() map[string]any {
		return map[string]any{"history": hist, "config": cc.Desc, "pending_at_start": pending, "trace_tail": w.TraceTail(traceN(c))}
	}
	for i := 0; i < pending; i++ {
		d.Publish(1+i%2, false, 3)
	}

	cur := -1 // index into h of the attempt in progress
	w.Mu.Lock()
	w.DialPlan = func(w *sim.World, n int) sim.DialDecision {
		dd := sim.DialDecision{}
		if cur < 0 || cur >= len(h) {
			return dd
		}
		a := h[cur]
		if a.Phase == "dial" {
			dd.Gate = fmt.Sprint("phase", cur)
		}
		if a.Kind == "dial-fail" {
			dd.Err = errors.New("sim: no route to host")
		}
		return dd
	}
	connOf := map[int]int{} // conn index -> attempt index
	w.Broker.Connack = func(b *sim.Broker, cn *sim.Conn, p *wire.Packet) []byte {
		connOf[cn.Idx] = cur
		if cur < 0 || cur >= len(h) {
			return wire.Connack(b.State.Session && !p.Connect.CleanSession, 0)
		}
		a := h[cur]
		sp := b.State.Session && !p.Connect.CleanSession
		switch a.Kind {
		case "connack-eof":
			full := wire.Connack(sp, 0)
			cn.SendLocked(full[:a.Arg], "partial CONNACK")
			cn.EndInboundLocked(-1, io.EOF)
			return nil
		case "connack-refused":
			return []byte{0x20, 2, byte(a.Flags), byte(a.Arg)}
		case "connack-flags":
			return []byte{0x20, 2, byte(a.Arg), 0}
		case "connack-sp-clean":
			if p.Connect.CleanSession {
				return wire.Connack(true, 0)
			}
			return []byte{0x20, 2, 2, 0} // no clean session requested: use a reserved flag instead
		case "not-connack":
			return wire.Pingresp()
		}
		return wire.Connack(sp, 0)
	}
	resendSeen := map[int]bool{}
	resendActive := false // between the hook points connect.dialed and connect.resent
	w.PointPlan = func(w *sim.World, point string, n int) sim.PointAction {
		switch point {
		case "connect.dialed":
			resendActive = true
		case "connect.resent", "toOffline.enter":
			resendActive = false
		}
		return sim.PointAction{}
	}
	failSecondStage := map[int]bool{}
	// resend-fail with Arg 8 or 9: the Persistence fails the Load of the first
	// record instead of the connection failing a write
	loadFailed := map[int]bool{}
	w.Store.Fail = func(op string, key uint, n int) bool {
		if op != "load" || key < 0x8000 || key > 0xffff || !resendActive || cur < 0 || cur >= len(h) {
			return false
		}
		a := h[cur]
		if a.Kind != "resend-fail" || a.Arg < 8 || loadFailed[cur] {
			return false
		}
		loadFailed[cur] = true
		return true
	}
	w.WritePlan = func(cn *sim.Conn, p []byte) sim.WriteDecision {
		ai, known := connOf[cn.Idx]
		if !known {
			ai = cur
		}
		if ai < 0 || ai >= len(h) {
			return sim.WriteDecision{Accept: -1}
		}
		a := h[ai]
		if len(p) > 0 && p[0]>>4 == wire.CONNECT {
			if a.Kind == "connect-write-fail" {
				return sim.WriteDecision{Accept: min(a.Arg, len(p)-1), Then: "error"}
			}
			return sim.WriteDecision{Accept: -1}
		}
		isResend := len(p) > 0 && (p[0]>>4 == wire.PUBLISH && p[0]&6 != 0 || p[0]>>4 == wire.PUBREL)
		if isResend && !resendSeen[cn.Idx] && ai == cur && resendActive {
			// first packet of the resend on this connection
			resendSeen[cn.Idx] = true
			dd := sim.WriteDecision{Accept: -1}
			// the failure hits the first packet, or (odd Arg, something exactly-once
			// pending) the first packet of the exactly-once stage
			second := false
			if a.Kind == "resend-fail" && a.Arg%2 == 1 {
				for k := range w.Store.CurrentLocked() {
					if k >= 0xc000 && k <= 0xffff {
						second = true
					}
				}
				if p[0]>>4 == wire.PUBLISH && p[0]&6 == 4 || p[0]>>4 == wire.PUBREL {
					second = false // this first packet is of that stage already
				}
			}
			if a.Kind == "resend-fail" && !second && a.Arg < 8 {
				dd = sim.WriteDecision{Accept: min(a.Arg, len(p)-1), Then: "error"}
			}
			failSecondStage[cn.Idx] = second
			if a.Phase == "resend" {
				dd.Gate = fmt.Sprint("phase", cur)
			}
			return dd
		}
		if isResend && failSecondStage[cn.Idx] && (p[0]>>4 == wire.PUBLISH && p[0]&6 == 4 || p[0]>>4 == wire.PUBREL) {
			failSecondStage[cn.Idx] = false
			return sim.WriteDecision{Accept: min(a.Arg, len(p)-1), Then: "error"}
		}
		return sim.WriteDecision{Accept: -1}
	}
	w.ReadPlan = func(cn *sim.Conn, avail int) sim.ReadDecision {
		ai := connOf[cn.Idx]
		if cn.InPos == 0 && ai == cur && ai >= 0 && ai < len(h) && h[ai].Phase == "handshake" {
			return sim.ReadDecision{Deliver: -1, Gate: fmt.Sprint("phase", cur), Then: map[bool]string{true: "block", false: ""}[avail == 0]}
		}
		if avail == 0 {
			if cn.ReadDeadlineArmed() && cn.MidPacket() && cn.InPos > 0 {
				// the broker sent something short of a CONNACK and stays silent:
				// the armed deadline ends the wait
				return sim.ReadDecision{Then: "timeout"}
			}
			return sim.ReadDecision{Then: "block"}
		}
		return sim.ReadDecision{Deliver: -1}
	}
	w.Mu.Unlock()
	d.StartReader()

	type reqObs struct {
		att        int
		a          attempt
		call       *sim.Call
		pub        *sim.Pub
		pubDone    chan struct{}
		started    int64
		outcome    int64 // logical time of the attempt's outcome
		success    bool
		downBefore bool // the attempt is a retry after a failed one: ErrDown at once is in order
	}
	var reqs []*reqObs
	issue := func(a attempt, ai int) *reqObs {
		ro := &reqObs{att: ai, a: a, started: w.Now()}
		tag := fmt.Sprintf("r/%d", ai)
		switch a.Req {
		case "Publish":
			ro.call = d.Go("Publish", func() error { return cl.Publish(nil, []byte("x"), tag) })
		case "Subscribe":
			ro.call = d.Go("Subscribe", func() error { return cl.Subscribe(nil, tag) })
		case "Ping":
			ro.call = d.Go("Ping", func() error { return cl.Ping(nil) })
		default:
			// not on this goroutine: during a resend the sequence lock is taken
			done := make(chan struct{})
			ro.pubDone = done
			go func() {
				defer close(done)
				ro.pub = d.Publish(1, false, 2)
			}()
		}
		reqs = append(reqs, ro)
		if ro.pubDone != nil && a.Phase != "resend" {
			select {
			case <-ro.pubDone:
			case <-time.After(sim.StepTimeout):
			}
		}
		return ro
	}
	established := false
	wantCleanFlags := map[int]bool{} // conn -> expected clean session flag
	online := false
	stuck := func(what string) {
		wedged, report := w.Diagnose(1500 * time.Millisecond)
		if wedged {
			dt := detail()
			dt["report"] = report
			c.Violate("connect-history-stuck", what, dt)
		} else {
			c.Inconclusive("history slow at " + what)
		}
		c.Spoiled()
	}
	successes, failures := 0, 0
	lastSuccess := false
	attSuccess, attSeq := map[int]bool{}, map[int]int64{}
	for ai, a := range h {
		if online {
			// the connection gets lost first
			// the invocation that connected sits in Read and reports the loss
			n0 := d.ReadCount()
			w.Mu.Lock()
			cur = -1
			w.Mu.Unlock()
			// a read loop that sits between invocations needs a grant to notice the
			// loss; one inside ReadSlices comes back by itself (a grant given after it
			// came back would start the next attempt behind the script's back)
			pausedBefore := false
			w.WaitUntil(time.Millisecond, func() bool { pausedBefore = !w.ReaderParked0(); return true })
			if cn := w.CurConn(); cn != nil {
				cn.EndInbound(-1, io.EOF)
			}
			if pausedBefore {
				d.GrantIfPaused()
			}
			if !w.WaitUntil(sim.StepTimeout, func() bool { return d.ReadCount() > n0 }) {
				stuck("connection loss")
				return
			}
			if rs := d.ReadsSnapshot(); rs[len(rs)-1].Err == nil {
				c.Violate("connection-loss-without-error", "ReadSlices returned no error after the broker closed the connection", detail())
			}
			online = false
		}
		w.Mu.Lock()
		cur = ai
		nconn := len(w.Conns)
		w.Mu.Unlock()
		_ = nconn
		n0 := d.ReadCount()
		resent0 := w.PointCount("connect.resent")
		var ro *reqObs
		if !d.GrantWhenPaused(4 * sim.StepTimeout) {
			// ReadSlices had returned; a read loop that does not get to its pause is
			// starved, not wedged (the grant went out regardless, so the condition
			// can not be looked at again)
			c.Inconclusive("read loop slow to pause between attempts: " + strings.Join(w.TraceTail(40), " | "))
			c.Spoiled()
			return
		}
		gate := fmt.Sprint("phase", ai)
		if a.Phase == "dial" || a.Phase == "handshake" || a.Phase == "resend" {
			// wait until the attempt sits in its phase, issue the request, hold, release
			if w.WaitUntil(2*time.Second, func() bool {
				return w.Gate(gate).Waiting > 0 || d.ReadCount() > n0 || w.PointCountLocked("connect.resent") > resent0
			}) && w.WaitUntil(time.Millisecond, func() bool { return w.Gate(gate).Waiting > 0 }) {
				ro = issue(a, ai)
				if a.Long {
					time.Sleep(60 * time.Millisecond)
				} else {
					time.Sleep(500 * time.Microsecond)
				}
			}
			w.Open(gate)
		}
		success := a.Kind == "success"
		for _, prev := range reqs {
			if prev.pubDone != nil && prev != ro {
				select {
				case <-prev.pubDone:
				case <-time.After(sim.StepTimeout):
				}
			}
		}
		if a.Kind == "resend-fail" {
			// nothing pending, nothing to fail
			has := false
			for k := range w.Store.Content() {
				if k >= 0x8000 && k <= 0xffff {
					has = true
				}
			}
			if !has {
				success = true
			}
		}
		downBefore := ai > 0 && !lastSuccess
		// outcome
		ok := w.WaitUntil(sim.StepTimeout, func() bool {
			if success {
				return w.PointCountLocked("connect.resent") > resent0 && w.ReaderQuietLocked()
			}
			return d.ReadCount() > n0
		})
		if !ok {
			// maybe the attempt took another course (failure expected, success seen)
			if !success && w.PointCount("connect.resent") > resent0 {
				c.Violate("failed-connect-reported-success", fmt.Sprintf("attempt %d (%s) completed as a connection", ai, a), detail())
				d.CloseAndWait()
				return
			}
			stuck(fmt.Sprintf("attempt %d (%s)", ai, a))
			return
		}
		reads := d.ReadsSnapshot()
		outcomeSeq := w.Now()
		if success {
			w.Mu.Lock()
			for i := len(w.Trace) - 1; i >= 0; i-- {
				if e := w.Trace[i]; e.Kind == "point" && e.Note == "connect.resent" {
					outcomeSeq = e.Seq
					break
				}
			}
			w.Mu.Unlock()
		} else if len(reads) > 0 {
			outcomeSeq = reads[len(reads)-1].Seq
		}
		if !success && len(reads) > 0 {
			// the failure is decided by the last dial or connection event before
			// ReadSlices reports it; waiting requests are released from then on
			w.Mu.Lock()
			for i := len(w.Trace) - 1; i >= 0; i-- {
				e := w.Trace[i]
				if e.Seq >= outcomeSeq {
					continue
				}
				if e.Kind == "dial.ret" || e.Kind == "read" || e.Kind == "write" || e.Kind == "close" {
					outcomeSeq = e.Seq
					break
				}
			}
			w.Mu.Unlock()
		}
		attSuccess[ai], attSeq[ai] = success, outcomeSeq
		if ro != nil {
			ro.outcome, ro.success, ro.downBefore = outcomeSeq, success, downBefore
		}
		lastSuccess = success
		if success {
			successes++
			online = true
			if c.Rng.Intn(2) == 0 {
				// an application that takes note of a new session clears the flag
				cl.InNewSession.Store(false)
			}
			if d.ReadCount() > n0 {
				last := reads[len(reads)-1]
				if last.Err != nil {
					c.Violate("successful-connect-reported-error", fmt.Sprintf("attempt %d (%s): ReadSlices returned %q", ai, a, last.Err), detail())
				}
			}
			established = true
		} else {
			failures++
			last := reads[len(reads)-1]
			if last.Err == nil {
				c.Violate("failed-connect-without-error", fmt.Sprintf("attempt %d (%s): ReadSlices returned no error", ai, a), detail())
			} else {
				if a.Kind == "connack-refused" {
					if !mqtt.IsConnectionRefused(last.Err) {
						c.Violate("refusal-not-classified", fmt.Sprintf("attempt %d: return code %d gave %q, not IsConnectionRefused", ai, a.Arg, last.Err), detail())
					} else if want := fmt.Sprint(a.Arg); a.Arg > 5 && !strings.Contains(last.Err.Error(), want) && !strings.Contains(strings.ToLower(last.Err.Error()), fmt.Sprintf("%x", a.Arg)) {
						c.Violate("refusal-code-lost", fmt.Sprintf("attempt %d: return code %d not in %q", ai, a.Arg, last.Err), detail())
					}
				} else if mqtt.IsConnectionRefused(last.Err) {
					c.Violate("refusal-misclassified", fmt.Sprintf("attempt %d (%s) gave a connection-refused error %q", ai, a, last.Err), detail())
				}

			}
			// CONNACK accepted but the resend failed: the session was established
			if a.Kind == "resend-fail" {
				established = true
			}
		}
		_ = wantCleanFlags
		if ro != nil && ro.call != nil {
			if success {
				for i := 0; i < 10 && !ro.call.Returned(); i++ {
					d.GrantIfPaused()
					w.WaitUntil(200*time.Millisecond, func() bool { return ro.call.Returned() })
				}
			} else if !downBefore {
				// the request polls the connect state every 20 ms; 3 s are 150 periods.
				// Whether it is stuck is decided structurally (nothing moves while the
				// process does get processor time), not by the clock alone.
				if !w.WaitUntil(3*time.Second, func() bool { return ro.call.Returned() }) {
					wedged, report := w.Diagnose(1500 * time.Millisecond)
					if !ro.call.Returned() {
						if wedged {
							dt := detail()
							dt["report"] = report
							c.Violate("request-blocked-after-failed-connect", fmt.Sprintf("%s issued during the %s phase of attempt %d (%s) still blocks after the attempt failed, with the client down and nothing else going on", a.Req, a.Phase, ai, a), dt)
						} else {
							c.Inconclusive("request slow to return after a failed connect: " + firstLine(report))
						}
						c.Spoiled()
						d.CloseAndWait()
						return
					}
				}
			}
		}
		if a.Phase == "after" {
			ro = issue(a, ai)
			ro.outcome, ro.success = outcomeSeq, success
			ro.downBefore = downBefore
			if success && ro.call != nil {
				for i := 0; i < 10 && !ro.call.Returned(); i++ {
					d.GrantIfPaused()
					w.WaitUntil(200*time.Millisecond, func() bool { return ro.call.Returned() })
				}
			}
			if !success && ro.call != nil {
				// down: the request returns at once
				if !w.WaitUntil(2*time.Second, func() bool { return ro.call.Returned() }) {
					stuck("request on a down client")
					return
				}
			}
		}
	}
	_ = established
	// run to the end: everything completes on the final connection
	for _, ro := range reqs {
		if ro.pubDone != nil {
			select {
			case <-ro.pubDone:
			case <-time.After(sim.StepTimeout):
			}
		}
	}
	for i := 0; i < 8; i++ {
		pendingCalls := false
		for _, ro := range reqs {
			if ro.call != nil && !ro.call.Returned() {
				pendingCalls = true
			}
		}
		if !pendingCalls && w.WaitUntil(time.Millisecond, d.AllClosed) {
			break
		}
		d.GrantIfPaused()
		w.WaitUntil(300*time.Millisecond, func() bool { return d.AllClosed() })
	}
	for _, ro := range reqs {
		if ro.call != nil && !w.WaitUntil(sim.StepTimeout, func() bool { return ro.call.Returned() }) {
			stuck("request never returned: " + ro.a.String())
			return
		}
	}
	if !w.WaitUntil(sim.StepTimeout, d.AllClosed) {
		wedged, report := w.Diagnose(1500 * time.Millisecond)
		if wedged {
			dt := detail()
			dt["report"] = report
			c.Violate("pending-transfers-never-complete", "persisted publishes still open after the final successful connect", dt)
		} else {
			c.Inconclusive("final drain slow")
		}
		c.Spoiled()
		return
	}

	for _, ro := range reqs {
		if ro.pubDone != nil {
			select {
			case <-ro.pubDone:
			case <-time.After(sim.StepTimeout):
				stuck("persisted publish never returned")
				return
			}
		}
	}
	// ---- oracles on the recorded history ----
	// requests per phase
	for _, ro := range reqs {
		if ro.call != nil {
			<-ro.call.Done
			e := ro.call.Err
			switch ro.a.Phase {
			case "dial", "handshake", "resend":
				if ro.downBefore {
					// a retry after a failed attempt: ErrDown until it succeeds
					if e != nil && !errors.Is(e, mqtt.ErrDown) {
						c.Violate("request-not-errdown-after-failed-connect", fmt.Sprintf("%s issued during the retry (attempt %d, %s phase) returned %q", ro.a.Req, ro.att, ro.a.Phase, e), detail())
					}
					// (the call is made by a goroutine of its own, which may come to
					// run only after a later attempt succeeded: success is judged by
					// interval, as below)
					served := false
					for j, sq := range attSeq {
						if j >= ro.att && sq < ro.call.RetSeq && attSuccess[j] {
							served = true
						}
					}
					if e == nil && !served {
						c.Violate("request-succeeded-without-connection", fmt.Sprintf("%s issued during failed attempt %d returned nil at #%d without a connect attempt having succeeded by then", ro.a.Req, ro.att, ro.call.RetSeq), detail())
					}
					break
				}
				// A waiting request polls the connect state; it may sit out a failed
				// attempt and be served by the retry. Its result is judged against
				// every attempt from its own on that was decided before it returned.
				legalNil, legalDown := false, false
				for j, sq := range attSeq {
					if j >= ro.att && sq < ro.call.RetSeq {
						if attSuccess[j] {
							legalNil = true
						} else {
							legalDown = true
						}
					}
				}
				switch {
				case e == nil && !legalNil:
					c.Violate("request-succeeded-without-connection", fmt.Sprintf("%s issued during the %s phase of attempt %d returned nil at #%d without a connect attempt having succeeded by then", ro.a.Req, ro.a.Phase, ro.att, ro.call.RetSeq), detail())
				case e != nil && errors.Is(e, mqtt.ErrDown) && !legalDown:
					c.Violate("request-did-not-await-connect", fmt.Sprintf("%s issued during the %s phase of attempt %d returned (%v) at #%d before any attempt from that one on had failed (its outcome at #%d)", ro.a.Req, ro.a.Phase, ro.att, e, ro.call.RetSeq, ro.outcome), detail())
				case e != nil && !errors.Is(e, mqtt.ErrDown):
					c.Violate("request-not-errdown-after-failed-connect", fmt.Sprintf("%s issued during the %s phase of attempt %d (%s) returned %v, want nil or ErrDown", ro.a.Req, ro.a.Phase, ro.att, h[ro.att], e), detail())
				}
			case "after":
				if ro.success && e != nil {
					c.Violate("request-failed-while-online", fmt.Sprintf("%s issued after successful attempt %d returned %q", ro.a.Req, ro.att, e), detail())
				}
				if !ro.success && !errors.Is(e, mqtt.ErrDown) {
					c.Violate("request-not-errdown-after-failed-connect", fmt.Sprintf("%s issued after failed attempt %d (%s) returned %v, want ErrDown", ro.a.Req, ro.att, h[ro.att], e), detail())
				}
			}
		}
		if ro.pub != nil && ro.pub.Err != nil {
			c.Violate("persisted-publish-refused", fmt.Sprintf("PublishAtLeastOnce during %s of attempt %d: %v", ro.a.Phase, ro.att, ro.pub.Err), detail())
		}
	}
	// connections
	w.Mu.Lock()
	everAccepted := false
	wantConnect := cc.Want
	for _, cn := range w.Conns {
		ai, known := connOf[cn.Idx]
		pk, rest, perr := wire.ParseStream(cn.Out, true)
		if perr != nil {
			c.Violate("malformed-outbound-stream", fmt.Sprintf("conn %d: %v", cn.Idx, perr), nil)
			continue
		}
		partialConnect := len(pk) == 0 && len(rest) > 0
		if len(pk) == 0 && !partialConnect {
			continue // nothing written (closed early)
		}
		accepted := w.Broker.Accepted(cn)
		if accepted && len(pk) > 0 && pk[0].Type == wire.CONNECT && pk[0].Connect.CleanSession && len(cn.In) >= 4 && cn.In[2]&1 != 0 {
			accepted = false // session present on a clean-session request is a refusal to the client
		}
		if !partialConnect {
			if pk[0].Type != wire.CONNECT {
				c.Violate("first-packet-not-connect", fmt.Sprintf("conn %d starts with %s", cn.Idx, pk[0]), nil)
				continue
			}
			want := wantConnect
			want.CleanSession = cc.Cfg.CleanSession && !everAccepted
			if ref := wire.EncodeConnect(&want); !bytes.Equal(ref, pk[0].Raw) {
				got := pk[0].Connect
				sig := "connect-differs-from-config"
				if got.CleanSession != want.CleanSession {
					sig = "clean-session-flag-wrong"
				}
				c.Violate(sig, fmt.Sprintf("conn %d (attempt %d): CONNECT has clean session=%v client=%q, want clean session=%v client=%q (a connection was established before: %v)", cn.Idx, ai, got.CleanSession, got.ClientID, want.CleanSession, want.ClientID, everAccepted), nil)
			}
		} else if ref := wire.EncodeConnect(&wantConnect); len(rest) > 8 && !bytes.Equal(ref[:8], rest[:8]) {
			c.Violate("connect-differs-from-config", fmt.Sprintf("conn %d: partial CONNECT %x", cn.Idx, rest), nil)
		}
		// nothing but CONNECT before an accepting CONNACK was delivered
		ackSeq := cn.SeqOfIn(4)
		if len(pk) > 1 || !partialConnect && len(rest) > 0 {
			next := len(pk[0].Raw) + 1
			firstMore := cn.SeqOfOut(next)
			if !accepted {
				c.Violate("bytes-after-connect-without-accepting-connack", fmt.Sprintf("conn %d (attempt %d: %s): %d bytes follow the CONNECT although no accepting CONNACK was sent", cn.Idx, ai, attemptName(h, ai, known), len(cn.Out)-len(pk[0].Raw)), nil)
			} else if ackSeq == 0 || firstMore < ackSeq {
				c.Violate("bytes-before-connack", fmt.Sprintf("conn %d: byte %d written at #%d, the CONNACK was delivered at #%d", cn.Idx, next, firstMore, ackSeq), nil)
			}
		}
		if !accepted && !cn.Closed() {
			c.Violate("failed-connection-left-open", fmt.Sprintf("conn %d (attempt %d: %s) was not closed", cn.Idx, ai, attemptName(h, ai, known)), nil)
		}
		if accepted && !cn.Closed() && cn.Idx < len(w.Conns) {
			// the client went on to another connection: whatever made it leave
			// this one (a failed resend, a lost connection), it must not stay open
			c.Violate("failed-connection-left-open", fmt.Sprintf("conn %d (attempt %d: %s) was accepted, then left for a later connection, and never closed", cn.Idx, ai, attemptName(h, ai, known)), nil)
		}
		if accepted {
			everAccepted = true
		}
	}
	w.Mu.Unlock()
	// pending transfers precede new requests on every accepted connection
	ep := &Episode{Ctx: c, W: w, D: d, F: &Faults{}}
	a := analyzePubs(ep, d.PubsSnapshot(), true)
	seen := map[string]bool{}
	for _, v := range a.viol {
		if seen[v.sig] {
			continue
		}
		seen[v.sig] = true
		switch v.sig {
		case "pending-not-resent", "resend-out-of-order", "resend-skipped", "new-before-resend-end", "first-packet-not-connect", "exchange-never-closed", "accepted-never-delivered", "resend-of-completed", "resumed-at-wrong-stage":
			c.Violate(v.sig, v.msg, detail())
		}
	}
	for _, o := range w.Online {
		c.Violate("deadline-discipline", o, detail())
	}
	if !d.CloseAndWait() {
		c.Spoiled()
	}
	c.Count("connect_attempts", len(h))
	c.Count("connections", len(w.Conns))
	c.Count("requests_in_phases", len(reqs))
	if successes >= 1 && failures >= 1 {
		var ks []string
		for _, a := range h {
			ks = append(ks, a.Kind)
		}
		c.Trigger(strings.Join(ks, ">"))
	}
	c.Sample(map[string]any{"history": hist, "config": cc.Desc, "pending_at_start": pending})
}

func attemptName(h []attempt, ai int, known bool) string {
	if !known || ai < 0 || ai >= len(h) {
		return "?"
	}
	return h[ai].String()
}

func init() {
	run.Register(&run.Prop{
		ID:    "C18",
		Level: "fault_enumeration",
		Cases: func(tier string) int {
			if tier == "thorough" {
				return 20000
			}
			return 3000
		},
		ChunkSize:   50,
		Rule:        "each case is a connect history: a word of 1-7 attempts over {dial fails, CONNECT write fails at byte b, CONNACK cut by EOF after 0-3 bytes, CONNACK with return code 1-255, CONNACK with reserved flag bits, session-present on a clean-session request, a non-CONNACK first packet, resend fails at byte b, success}, ending in success, with connection loss between successes, over valid Configs of the C09 generator (will, credentials, keep-alive, clean session, client identifier) and 0-4 transfers pending from before; a request (Publish, Subscribe, Ping or a persisted publish) is issued inside a chosen phase of an attempt (Dialer blocked, CONNACK read blocked, first resend write blocked; held 0.5 ms or 60 ms) or right after it. The read loop is granted one ReadSlices per attempt. Oracle per connection: first packet equals the reference CONNECT of Config and stored client identifier, clean-session flag only while no earlier connection got an accepting CONNACK; no byte after CONNECT before the accepting CONNACK was delivered, none at all without one; refused => IsConnectionRefused carrying the code; every failed attempt closed its connection and gave a ReadSlices error with non-nil ReadBackoff; pending transfers are resent completely and in order before anything new (C01's resend oracle). Requests: not returned before the attempt's outcome (trace order), nil after success, ErrDown after failure; persisted publishes never refused and completed by the final connection. Non-trivial: at least one failed and one successful attempt; distinct by the word of attempt kinds.",
		Assumptions: []string{"'established' means an accepting CONNACK was delivered", "real time is used only to hold a phase open (60 ms in 1 of 5 phase requests, so that the client's 20 ms poll elapses); verdicts compare logical event order"},
		Run: func(c *run.Ctx) {
			var cc configCase
			for {
				cc = genConfig(c)
				if cc.Valid && len(cc.ClientID.S) < 200 {
					break
				}
			}
			h := genHistory(c)
			runHistory(c, h, cc, c.Rng.Intn(5))
		},
	})
}
