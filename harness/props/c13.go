package props

import (
	"bytes"
	"errors"
	"fmt"
	"math/rand"
	"os"
	"os/exec"
	"path/filepath"
	"regexp"
	"runtime"
	"strconv"
	"strings"
	"time"

	"github.com/pascaldekloe/mqtt"

	"verif/run"
	"verif/sim"
	"verif/wire"
)

// hostileModel is the reference view of what the client has outstanding.
type hostileModel struct {
	q1      []uint16 // awaiting PUBACK, in order
	q2pub   []uint16 // awaiting PUBREC, in order
	q2rel   []uint16 // awaiting PUBCOMP, in order
	subs    map[uint16]int
	unsubs  map[uint16]bool
	done1   int // completed at-least-once transfers
	done2   int
	returns int // PUBLISH packets to be returned
	acksOut int // acknowledgements the client owes
	// exactly-once reception cycles in progress: the identifier was returned and
	// no PUBREL ended the cycle yet; a PUBLISH with it is a retransmission
	inCycle map[uint16]bool
}

type verdict int

const (
	vOK verdict = iota
	vViolation
	vGray
	vIncomplete
)

// classify judges the packet at the start of b against the model and applies
// its effect when legal. It returns the packet length.
func (m *hostileModel) classify(b []byte) (verdict, int, string) {
	if len(b) < 2 {
		return vIncomplete, 0, "incomplete header"
	}
	hl, rem, err := wire.Header(b)
	if err == wire.ErrIncomplete {
		return vIncomplete, 0, "incomplete header"
	}
	if err != nil {
		return vViolation, 0, "remaining length over four bytes"
	}
	typ, flags := b[0]>>4, b[0]&15
	switch typ {
	case 0, wire.CONNECT, wire.SUBSCRIBE, wire.UNSUBSCRIBE, wire.PINGREQ, wire.DISCONNECT, 15:
		return vViolation, 0, "reserved or client-only packet type " + wire.TypeName(typ)
	case wire.CONNACK:
		return vViolation, 0, "second CONNACK"
	}
	if len(b) < hl+rem {
		if typ == wire.PUBLISH && flags&6 == 6 {
			return vGray, 0, "QoS 3 in an incomplete packet"
		}
		return vIncomplete, 0, "incomplete body"
	}
	body := b[hl : hl+rem]
	n := hl + rem
	wantFlags := byte(0)
	if typ == wire.PUBREL {
		wantFlags = 2
	}
	id := func() uint16 { return uint16(body[0])<<8 | uint16(body[1]) }
	grayFlags := typ != wire.PUBLISH && flags != wantFlags
	switch typ {
	case wire.PUBLISH:
		qos := flags >> 1 & 3
		if qos == 3 {
			return vViolation, n, "QoS 3"
		}
		if rem < 2 {
			return vViolation, n, "PUBLISH shorter than its topic length"
		}
		tl := int(body[0])<<8 | int(body[1])
		if 2+tl > rem {
			return vViolation, n, "PUBLISH topic exceeds remaining length"
		}
		if qos != 0 {
			if 2+tl+2 > rem {
				return vViolation, n, "PUBLISH identifier exceeds remaining length"
			}
			if body[2+tl] == 0 && body[2+tl+1] == 0 {
				return vViolation, n, "PUBLISH packet identifier zero"
			}
		}
		if tl == 0 || wire.ValidString(string(body[2:2+tl])) != nil || qos == 0 && flags&8 != 0 || strings.ContainsAny(string(body[2:2+tl]), "#+") {
			return vGray, n, "PUBLISH topic or flags outside the specification, tolerated or not"
		}
		if qos == 2 {
			pid := uint16(body[2+tl])<<8 | uint16(body[2+tl+1])
			if m.inCycle == nil {
				m.inCycle = map[uint16]bool{}
			}
			if m.inCycle[pid] {
				// ownership was taken when ReadSlices got invoked again: answered, not returned
				m.acksOut++
				return vOK, n, "PUBLISH (retransmission within its cycle)"
			}
			m.inCycle[pid] = true
		}
		m.returns++
		if qos != 0 {
			m.acksOut++
		}
		return vOK, n, "PUBLISH"
	case wire.PUBACK, wire.PUBREC, wire.PUBCOMP:
		if rem != 2 {
			return vViolation, n, wire.TypeName(typ) + " with inconsistent length"
		}
		if id() == 0 {
			return vViolation, n, "packet identifier zero"
		}
		var q *[]uint16
		space := uint16(0xc000)
		switch typ {
		case wire.PUBACK:
			q, space = &m.q1, 0x8000
		case wire.PUBREC:
			q = &m.q2pub
		default:
			q = &m.q2rel
		}
		if id()&0xc000 != space {
			return vViolation, n, "foreign packet identifier"
		}
		if len(*q) == 0 || (*q)[0] != id() {
			return vViolation, n, "out-of-order or unsolicited " + wire.TypeName(typ)
		}
		if grayFlags {
			return vGray, n, "reserved flags"
		}
		*q = (*q)[1:]
		switch typ {
		case wire.PUBACK:
			m.done1++
		case wire.PUBREC:
			m.q2rel = append(m.q2rel, id())
		default:
			m.done2++
		}
		return vOK, n, wire.TypeName(typ)
	case wire.PUBREL:
		if rem != 2 {
			return vViolation, n, "PUBREL with inconsistent length"
		}
		if id() == 0 {
			return vViolation, n, "packet identifier zero"
		}
		if grayFlags {
			return vGray, n, "reserved flags"
		}
		delete(m.inCycle, id())
		m.acksOut++
		return vOK, n, "PUBREL"
	case wire.SUBACK:
		if rem < 3 {
			return vViolation, n, "SUBACK with inconsistent length"
		}
		if id() == 0 {
			return vViolation, n, "packet identifier zero"
		}
		if id()&^0x1fff != 0x6000 {
			return vViolation, n, "foreign packet identifier"
		}
		for _, code := range body[2:] {
			if code > 2 && code != 0x80 {
				return vViolation, n, "illegal SUBACK return code"
			}
		}
		if want, ok := m.subs[id()]; ok {
			delete(m.subs, id())
			if want != rem-2 {
				return vViolation, n, "SUBACK return code count differs from the request"
			}
		}
		if grayFlags {
			return vGray, n, "reserved flags"
		}
		return vOK, n, "SUBACK"
	case wire.UNSUBACK:
		if rem != 2 {
			return vViolation, n, "UNSUBACK with inconsistent length"
		}
		if id() == 0 {
			return vViolation, n, "packet identifier zero"
		}
		if id()&^0x1fff != 0x4000 {
			return vViolation, n, "foreign packet identifier"
		}
		delete(m.unsubs, id())
		if grayFlags {
			return vGray, n, "reserved flags"
		}
		return vOK, n, "UNSUBACK"
	case wire.PINGRESP:
		if rem != 0 {
			return vViolation, n, "PINGRESP with inconsistent length"
		}
		if grayFlags {
			return vGray, n, "reserved flags"
		}
		return vOK, n, "PINGRESP"
	}
	return vGray, n, "?"
}

// hostileSetup describes what the client has outstanding before the stream.
type hostileSetup struct {
	n1, n2 int
	sub    int // filters of a pending Subscribe, 0 for none
	unsub  bool
	ping   bool
	// skipBig: the application does not read messages beyond the read buffer
	skipBig bool
}

// validStream builds a well-formed stream for the setup.
func validStream(r *rand.Rand, hs hostileSetup, n int) []byte {
	var out []byte
	a1, r2, c2 := 0, 0, 0
	subDone, unsubDone := hs.sub == 0, !hs.unsub
	id := uint16(1 + r.Intn(1000))
	for i := 0; i < n; i++ {
		switch k := r.Intn(12); {
		case k < 4:
			qos := byte(r.Intn(3))
			id++
			out = append(out, wire.Publish(fmt.Sprintf("h/%d", i), bytes.Repeat([]byte{byte(i)}, r.Intn(40)), qos, id, false, r.Intn(5) == 0)...)
		case k < 5:
			id++
			out = append(out, wire.Ack(wire.PUBREL, id)...)
		case k < 6:
			out = append(out, wire.Pingresp()...)
		case k < 7 && a1 < hs.n1:
			out = append(out, wire.Ack(wire.PUBACK, uint16(0x8000+a1))...)
			a1++
		case k < 8 && r2 < hs.n2:
			out = append(out, wire.Ack(wire.PUBREC, uint16(0xc000+r2))...)
			r2++
		case k < 9 && c2 < r2:
			out = append(out, wire.Ack(wire.PUBCOMP, uint16(0xc000+c2))...)
			c2++
		case k < 10 && !subDone:
			codes := make([]byte, hs.sub)
			for j := range codes {
				codes[j] = []byte{0, 1, 2, 0x80}[r.Intn(4)]
			}
			out = append(out, wire.Suback(0x6000, codes...)...)
			subDone = true
		case k < 11 && !unsubDone:
			out = append(out, wire.Ack(wire.UNSUBACK, 0x4000)...)
			unsubDone = true
		default:
			out = append(out, wire.Suback(uint16(0x6100+r.Intn(0x100)), 1)...)
		}
	}
	return out
}

// directed violations, one per kind named in the property.
var directed = []struct {
	name string
	b    []byte
}{
	{"reserved-type-0", []byte{0x00, 0x00}},
	{"reserved-type-15", []byte{0xf0, 0x00}},
	{"inbound-CONNECT", []byte{0x10, 0x00}},
	{"inbound-SUBSCRIBE", []byte{0x82, 0x02, 0x60, 0x00}},
	{"inbound-UNSUBSCRIBE", []byte{0xa2, 0x02, 0x40, 0x00}},
	{"inbound-PINGREQ", []byte{0xc0, 0x00}},
	{"inbound-DISCONNECT", []byte{0xe0, 0x00}},
	{"second-CONNACK", []byte{0x20, 0x02, 0x00, 0x00}},
	{"five-byte-length-PUBLISH", []byte{0x30, 0x87, 0x80, 0x80, 0x80, 0x00, 0x00, 0x01, 'a', 1, 2, 3, 4}},
	{"five-byte-length-PINGRESP", []byte{0xd0, 0x80, 0x80, 0x80, 0x80, 0x00}},
	{"PUBACK-id-zero", []byte{0x40, 0x02, 0x00, 0x00}},
	{"PUBREC-id-zero", []byte{0x50, 0x02, 0x00, 0x00}},
	{"PUBCOMP-id-zero", []byte{0x70, 0x02, 0x00, 0x00}},
	{"PUBREL-id-zero", []byte{0x62, 0x02, 0x00, 0x00}},
	{"SUBACK-id-zero", []byte{0x90, 0x03, 0x00, 0x00, 0x00}},
	{"UNSUBACK-id-zero", []byte{0xb0, 0x02, 0x00, 0x00}},
	{"PUBLISH-q1-id-zero", []byte{0x32, 0x05, 0x00, 0x01, 'a', 0x00, 0x00}},
	{"PUBLISH-q2-id-zero", []byte{0x34, 0x05, 0x00, 0x01, 'a', 0x00, 0x00}},
	{"PUBACK-foreign-space", []byte{0x40, 0x02, 0xc0, 0x00}},
	{"PUBACK-foreign-space-low", []byte{0x40, 0x02, 0x00, 0x07}},
	{"PUBREC-foreign-space", []byte{0x50, 0x02, 0x80, 0x00}},
	{"PUBCOMP-foreign-space", []byte{0x70, 0x02, 0x80, 0x00}},
	{"SUBACK-foreign-space", []byte{0x90, 0x03, 0x40, 0x00, 0x00}},
	{"UNSUBACK-foreign-space", []byte{0xb0, 0x02, 0x60, 0x00}},
	{"PUBACK-ahead", []byte{0x40, 0x02, 0x80, 0x01}},
	{"PUBACK-unsolicited-far", []byte{0x40, 0x02, 0x9f, 0xff}},
	{"PUBREC-ahead", []byte{0x50, 0x02, 0xc0, 0x01}},
	{"PUBCOMP-before-PUBREC", []byte{0x70, 0x02, 0xc0, 0x00}},
	{"PUBCOMP-ahead", []byte{0x70, 0x02, 0xc0, 0x01}},
	{"PUBACK-short", []byte{0x40, 0x01, 0x80}},
	{"PUBACK-long", []byte{0x40, 0x03, 0x80, 0x00, 0x00}},
	{"PUBACK-empty", []byte{0x40, 0x00}},
	{"PUBREC-long", []byte{0x50, 0x03, 0xc0, 0x00, 0x00}},
	{"PUBCOMP-short", []byte{0x70, 0x01, 0xc0}},
	{"PUBREL-long", []byte{0x62, 0x03, 0x00, 0x05, 0x00}},
	{"PUBREL-empty", []byte{0x62, 0x00}},
	{"UNSUBACK-long", []byte{0xb0, 0x03, 0x40, 0x00, 0x00}},
	{"SUBACK-short", []byte{0x90, 0x02, 0x60, 0x00}},
	{"PINGRESP-long", []byte{0xd0, 0x01, 0x00}},
	{"SUBACK-illegal-code-3", []byte{0x90, 0x03, 0x60, 0x00, 0x03}},
	{"SUBACK-illegal-code-0x81", []byte{0x90, 0x04, 0x60, 0x00, 0x00, 0x81}},
	{"SUBACK-count-mismatch", []byte{0x90, 0x06, 0x60, 0x00, 0x00, 0x00, 0x00, 0x00}},
	{"PUBLISH-qos3", []byte{0x36, 0x05, 0x00, 0x01, 'a', 0x00, 0x09}},
	{"PUBLISH-empty-body", []byte{0x30, 0x00}},
	{"PUBLISH-one-byte-body", []byte{0x30, 0x01, 0x00}},
	{"PUBLISH-topic-exceeds", []byte{0x30, 0x03, 0x00, 0x05, 'a'}},
	{"PUBLISH-q1-no-room-for-id", []byte{0x32, 0x04, 0x00, 0x01, 'a', 0x07}},
}

type hostileResult struct {
	reads     []*sim.ReadRet
	closed1   bool
	dials     int
	done1     int
	done2     int
	deleted   int
	ackWrites int
	online    []string
	alloc     uint64
	stuck     string
	calls     []*sim.Call
	probed    bool
	probeLost string
}

// runHostile feeds the bytes to a fresh client. In handshake mode the bytes
// replace the CONNACK, otherwise they follow a valid one.
func runHostile(c *run.Ctx, hs hostileSetup, input []byte, handshake bool, clean bool) (*hostileResult, *sim.World) {
	w := sim.NewWorld(c.Rng.Int63())
	sim.InstallHooks(w)
	w.RequireDeadlines = true
	w.DataCap = 48
	pendingReqs := 0
	if !handshake {
		if hs.sub > 0 {
			pendingReqs++
		}
		if hs.unsub {
			pendingReqs++
		}
		if hs.ping {
			pendingReqs++
		}
	}
	w.Mu.Lock()
	w.Broker.Mute = true
	first := true
	w.Broker.Connack = func(b *sim.Broker, cn *sim.Conn, p *wire.Packet) []byte {
		if !first {
			return wire.Connack(false, 0)
		}
		first = false
		if handshake {
			return input
		}
		if pendingReqs == 0 {
			return append(wire.Connack(false, 0), input...)
		}
		return wire.Connack(false, 0)
	}
	seenReqs := 0
	var subID, unsubID uint16 = 0x6000, 0x4000
	w.Broker.OnPacket = func(cn *sim.Conn, p *wire.Packet) {
		if cn.Idx != 1 || pendingReqs == 0 {
			return
		}
		switch p.Type {
		case wire.SUBSCRIBE:
			subID = p.ID
		case wire.UNSUBSCRIBE:
			unsubID = p.ID
		}
		switch p.Type {
		case wire.SUBSCRIBE, wire.UNSUBSCRIBE, wire.PINGREQ:
			seenReqs++
			if seenReqs == pendingReqs {
				// now the requests are outstanding for sure; the reference
				// speaks of identifiers 0x6000 and 0x4000: rename consistently
				cn.SendLocked(renameIDs(input, subID, unsubID), "hostile stream")
			}
		}
	}
	w.ReadPlan = func(cn *sim.Conn, avail int) sim.ReadDecision {
		if avail == 0 {
			// the broker stays silent: an armed deadline expires, none blocks
			if cn.Idx == 1 && cn.ReadDeadlineArmed() && cn.MidPacket() {
				return sim.ReadDecision{Then: "timeout"}
			}
			return sim.ReadDecision{Then: "block"}
		}
		if avail > 1 && w.Rng.Intn(3) == 0 {
			return sim.ReadDecision{Deliver: 1 + w.Rng.Intn(avail-1)}
		}
		return sim.ReadDecision{Deliver: -1}
	}
	w.Mu.Unlock()
	cfg := mqtt.Config{Dialer: w.Dialer(), PauseTimeout: time.Hour, ReconnectWaitMin: time.Microsecond, AtLeastOnceMax: 8, ExactlyOnceMax: 8, CleanSession: clean}
	cl, err := mqtt.InitSession("c13", w.Store, &cfg)
	if err != nil {
		c.Violate("init-failed", err.Error(), nil)
		return nil, w
	}
	d := sim.NewDriver(w, cl, nil, 0)
	for i := 0; i < hs.n1; i++ {
		d.Publish(1, false, 3)
	}
	for i := 0; i < hs.n2; i++ {
		d.Publish(2, false, 3)
	}
	d.MaxErrs = 6
	d.BigRead = func(b *mqtt.BigMessage) bool { return !hs.skipBig && b.Size <= 1<<20 }
	res := &hostileResult{}
	// requests that wait for the first connect
	if !handshake {
		if hs.sub > 0 {
			fs := make([]string, hs.sub)
			for i := range fs {
				fs[i] = fmt.Sprint("f/", i)
			}
			res.calls = append(res.calls, d.Go("Subscribe", func() error { return cl.Subscribe(nil, fs...) }))
		}
		if hs.unsub {
			res.calls = append(res.calls, d.Go("Unsubscribe", func() error { return cl.Unsubscribe(nil, "u") }))
		}
		if hs.ping {
			res.calls = append(res.calls, d.Go("Ping", func() error { return cl.Ping(nil) }))
		}
	}
	var ms0 runtime.MemStats
	runtime.ReadMemStats(&ms0)
	d.StartReader()
	if pendingReqs != 0 {
		// the stream goes out once the requests reached the broker
		if !w.WaitUntil(sim.StepTimeout, func() bool { return seenReqs >= pendingReqs || w.Dials > 1 }) {
			c.Inconclusive("hostile input: pending requests never reached the broker")
			c.Spoiled()
			return nil, w
		}
	}
	if !w.WaitReaderQuiet(sim.StepTimeout) {
		wedged, report := w.Diagnose(1500 * time.Millisecond)
		if !w.WaitReaderQuiet(time.Millisecond) {
			if wedged {
				res.stuck = report
			} else {
				c.Inconclusive("hostile input: read routine slow")
				c.Spoiled()
				return nil, w
			}
		}
	}
	readsBeforeProbe := d.ReadsSnapshot()
	// after a reset the next connection works: a message sent on it comes out
	if cn := w.CurConn(); cn != nil && cn.Idx >= 2 && cn.Alive() && res.stuck == "" {
		w.Mu.Lock()
		accepted := w.Broker.Accepted(cn)
		w.Mu.Unlock()
		if accepted {
			w.Broker.Publish("probe/after/reset", []byte("still receiving"), 0, false)
			got := func() bool {
				for _, r := range d.ReadsSnapshot() {
					if r.Topic == "probe/after/reset" && string(r.Msg) == "still receiving" {
						return true
					}
				}
				return false
			}
			if !w.WaitUntil(sim.StepTimeout, got) {
				wedged, report := w.Diagnose(1500 * time.Millisecond)
				if !got() {
					if wedged {
						res.probeLost = report
					} else {
						c.Inconclusive("hostile input: probe after the reset slow")
					}
				}
			}
			res.probed = true
		}
	}
	// requests pending on a connection that is still fine stay pending; let them go
	w.WaitIdle(50 * time.Millisecond)
	d.WaitWatchers(2 * time.Second)
	var ms1 runtime.MemStats
	runtime.ReadMemStats(&ms1)
	res.alloc = ms1.TotalAlloc - ms0.TotalAlloc
	res.reads = readsBeforeProbe
	w.Mu.Lock()
	res.closed1 = len(w.Conns) > 0 && w.Conns[0].Closed()
	res.dials = w.Dials
	res.online = append(res.online, w.Online...)
	for _, op := range w.Store.Ops {
		if op.Op == "delete" && !op.Err && op.Key >= 0x8000 && op.Key <= 0xffff {
			res.deleted++
		}
	}
	w.Mu.Unlock()
	for _, p := range d.PubsSnapshot() {
		if p.ClosedSeq != 0 {
			if p.Level == 1 {
				res.done1++
			} else {
				res.done2++
			}
		}
	}
	if res.stuck == "" {
		if !d.CloseAndWait() {
			c.Spoiled()
		}
	} else {
		c.Spoiled()
	}
	return res, w
}

// judgeHostile compares the outcome with the reference.
func judgeHostile(c *run.Ctx, label string, hs hostileSetup, input []byte, handshake, clean bool) (offending bool) {
	// reference
	m := &hostileModel{subs: map[uint16]int{}, unsubs: map[uint16]bool{}}
	for i := 0; i < hs.n1; i++ {
		m.q1 = append(m.q1, uint16(0x8000+i))
	}
	for i := 0; i < hs.n2; i++ {
		m.q2pub = append(m.q2pub, uint16(0xc000+i))
	}
	stream := input
	wantErr, gray := false, false
	extraReturn := 0
	why := ""
	maxAnnounced := 0
	if handshake {
		// the first four bytes must be an accepting CONNACK
		switch {
		case len(input) < 4:
			wantErr, why = true, "missing CONNACK"
			if len(input) >= 2 && (input[0] != 0x20 || input[1] != 2) {
				why = "malformed CONNACK"
			}
		case input[0] != 0x20 || input[1] != 2:
			wantErr, why = true, "malformed CONNACK"
		case input[3] != 0:
			wantErr, why = true, "connection refused"
		case input[2] > 1:
			wantErr, why = true, "CONNACK reserved flags"
		case input[2] == 1 && clean:
			wantErr, why = true, "session present on clean session"
		}
		if wantErr {
			stream = nil
		} else {
			stream = input[4:]
		}
	} else {
		if hs.sub > 0 {
			m.subs[0x6000] = hs.sub
		}
		if hs.unsub {
			m.unsubs[0x4000] = true
		}
	}
	pos := 0
	for !wantErr && pos < len(stream) {
		if hl, rem, err := wire.Header(stream[pos:]); err == nil && hl+rem > maxAnnounced {
			maxAnnounced = hl + rem
		}
		v, n, what := m.classify(stream[pos:])
		switch v {
		case vOK:
			pos += n
			continue
		case vViolation:
			wantErr, why = true, what
		case vGray:
			gray, why = true, what
		case vIncomplete:
			// a stalled broker: the deadline ends the wait
			wantErr, why = true, "stream ends inside a packet ("+what+")"
			if stream[pos]>>4 == wire.PUBLISH {
				// a message beyond the read buffer is handed out before its payload arrived
				extraReturn = 1
			}
		}
		break
	}

	res, w := runHostile(c, hs, input, handshake, clean)
	defer w.Shutdown()
	if res == nil {
		return wantErr
	}
	detail := func() map[string]any {
		return map[string]any{"input": fmt.Sprintf("%x", head(input, 200)), "input_len": len(input), "as_handshake_reply": handshake, "outstanding": fmt.Sprintf("%+v", hs), "reference": why, "trace_tail": w.TraceTail(traceN(c))}
	}
	if res.stuck != "" {
		dt := detail()
		dt["report"] = res.stuck
		c.Violate("read-routine-stuck-on-hostile-input", label+": ReadSlices neither returned nor parked", dt)
		return wantErr
	}
	for _, o := range res.online {
		c.Violate("deadline-discipline", label+": "+o, detail())
	}
	if res.probeLost != "" {
		dt := detail()
		dt["report"] = res.probeLost
		c.Violate("reception-does-not-resume-after-reset", label+": a message sent on the connection that followed the reset never came out of ReadSlices", dt)
	}
	if res.probed {
		c.Count("probes_after_reset", 1)
	}
	if limit := uint64(maxAnnounced) + 8<<20; res.alloc > limit {
		c.Violate("allocation-beyond-announced-size", fmt.Sprintf("%s: %d bytes allocated while the largest announced packet has %d", label, res.alloc, maxAnnounced), detail())
	}
	// forged progress, unconditional form: completions need their acknowledgement bytes in the input
	count := func(typ byte, id uint16) bool {
		for i := 0; i+3 < len(input); i++ {
			if input[i]>>4 == typ && input[i+1] == 2 && input[i+2] == byte(id>>8) && input[i+3] == byte(id) {
				return true
			}
		}
		return false
	}
	for i := 0; i < res.done1; i++ {
		if !count(wire.PUBACK, uint16(0x8000+i)) {
			c.Violate("forged-progress", fmt.Sprintf("%s: at-least-once transfer %d completed though the input holds no PUBACK for it", label, i), detail())
		}
	}
	for i := 0; i < res.done2; i++ {
		if !count(wire.PUBREC, uint16(0xc000+i)) || !count(wire.PUBCOMP, uint16(0xc000+i)) {
			c.Violate("forged-progress", fmt.Sprintf("%s: exactly-once transfer %d completed though the input lacks its PUBREC or PUBCOMP", label, i), detail())
		}
	}
	if res.deleted != res.done1+res.done2 {
		c.Violate("forged-progress", fmt.Sprintf("%s: %d records deleted, %d transfers completed", label, res.deleted, res.done1+res.done2), detail())
	}
	// whatever came in, what the client writes is well-formed, and it
	// acknowledges nothing under the reserved identifier zero
	dtOut := detail()
	w.Mu.Lock()
	for _, cn := range w.Conns {
		pk, rest, perr := wire.ParseStream(cn.Out, true)
		if perr != nil {
			c.Violate("client-emits-malformed-packet", fmt.Sprintf("%s: conn %d: %v (after %d packets, %d bytes left)", label, cn.Idx, perr, len(pk), len(rest)), dtOut)
		}
		for _, q := range pk {
			switch q.Type {
			case wire.PUBACK, wire.PUBREC, wire.PUBREL, wire.PUBCOMP:
				if q.ID == 0 {
					c.Violate("client-emits-malformed-packet", fmt.Sprintf("%s: conn %d: %s with the reserved packet identifier zero", label, cn.Idx, wire.TypeName(q.Type)), dtOut)
				}
			}
		}
	}
	w.Mu.Unlock()
	if gray {
		return false
	}
	// strict comparison
	var errs []error
	rets := 0
	for _, r := range res.reads {
		if r.Big && r.BigRead && r.BigErr != nil {
			// the stalled payload surfaced through ReadAll
			errs = append(errs, r.BigErr)
		}
		if r.Err != nil && !r.Big {
			if !errors.Is(r.Err, mqtt.ErrClosed) {
				errs = append(errs, r.Err)
			}
			continue
		}
		rets++
	}
	if res.done1 != m.done1 || res.done2 != m.done2 {
		sig := "progress-differs-from-reference"
		if res.done1 > m.done1 || res.done2 > m.done2 {
			sig = "forged-progress"
		}
		c.Violate(sig, fmt.Sprintf("%s: completed %d+%d transfers, the in-order acknowledgements before the offence account for %d+%d", label, res.done1, res.done2, m.done1, m.done2), detail())
	}
	if rets != m.returns && rets != m.returns+extraReturn {
		c.Violate("returns-differ-from-reference", fmt.Sprintf("%s: ReadSlices returned %d messages, %d well-formed PUBLISH packets precede the offence", label, rets, m.returns), detail())
	}
	if wantErr {
		if len(errs) == 0 {
			c.Violate("violation-not-surfaced", fmt.Sprintf("%s: %s, yet ReadSlices reported no error", label, why), detail())
			return true
		}
		if why == "connection refused" && !mqtt.IsConnectionRefused(errs[0]) {
			c.Violate("refusal-not-classified", fmt.Sprintf("%s: return code %d gave %q, not IsConnectionRefused", label, input[3], errs[0]), detail())
		}
		if !res.closed1 {
			c.Violate("connection-kept-after-violation", fmt.Sprintf("%s: %s, yet the connection was not closed", label, why), detail())
		}
		if res.dials < 2 {
			c.Violate("no-fresh-connection-after-violation", fmt.Sprintf("%s: %s, yet the next ReadSlices did not dial again", label, why), detail())
		}
	} else if len(errs) != 0 {
		c.Violate("error-on-wellformed-stream", fmt.Sprintf("%s: ReadSlices failed with %q on input the reference accepts", label, errs[0]), detail())
	}
	return wantErr
}

func init() {
	run.Register(&run.Prop{
		ID:    "C13",
		Level: "exploration",
		Cases: func(tier string) int {
			if tier == "thorough" {
				return 4000
			}
			return 640
		},
		ChunkSize:   10,
		Rule:        "inputs come from four generators, each used as handshake reply and as post-handshake stream against clients with 0-3 at-least-once and 0-3 exactly-once transfers outstanding plus optional pending Subscribe, Unsubscribe and Ping: (directed) 47 hand-listed offences, one per violation the statement names, placed after a valid prefix of 0-6 packets, plus 9 stage-dependent ones (an acknowledgement that would be right one stage earlier or later, after a prefix that brings the transfers to that stage); (mutation) every single-field mutation of a generated valid stream: each byte of each fixed header set to 0, +-1, 0xff, high bit flipped, identifiers set to zero, foreign space and neighbour, truncation at every byte (broker then stays silent); (soup) PRNG bytes and valid packets in PRNG order; (handshake) all 256 return codes and flag bytes, truncated and foreign first packets. A reference classifier written from the specification (over the model of what is outstanding) gives the first offending packet; gray-zone inputs (reserved flag bits on non-PUBLISH packets, topic contents, DUP on QoS 0) get only the unconditional monitors. Oracle: no panic (child-process monitor); packets before the offence take effect (returned messages, completed transfers equal the reference); at the offence ReadSlices errs, the connection is closed by the client, the next ReadSlices dials again and a message sent on that next connection comes out; completions and record deletions need their in-order acknowledgement bytes in the input; messages beyond the read buffer that stop short are read or skipped by the application; a Read that blocks inside a packet must have a deadline armed (the connection expires it instead of waiting); bytes allocated stay below the largest announced packet + 8 MiB. Non-trivial: input with an offence reached by the parser; distinct by (generator, offence kind, outstanding state, handshake or stream).",
		Assumptions: []string{"the thorough tier adds a 120 s session of Go's coverage-guided fuzzing on the same oracle (props/fuzz_test.go); an asan pass is not part of this check", "BigMessage.ReadAll is never called on messages above 1 MiB"},
		Extra: func(tier string, seed int64) *run.CaseResult {
			if tier != "thorough" {
				return nil
			}
			return fuzzSession("FuzzHostile", 120)
		},
		Run: func(c *run.Ctx) {
			r := c.Rng
			hs := hostileSetup{n1: r.Intn(4), n2: r.Intn(4)}
			if r.Intn(2) == 0 {
				hs.sub = 1 + r.Intn(3)
			}
			hs.unsub = r.Intn(3) == 0
			hs.ping = r.Intn(3) == 0
			inputs, offences := 0, 0
			try := func(label, shape string, in []byte, handshake, clean bool) {
				inputs++
				if judgeHostile(c, label, hs, in, handshake, clean) {
					offences++
					c.Trigger(shape)
				}
			}
			switch c.Case % 4 {
			case 0: // directed
				if c.Case/4%4 == 1 {
					// offences that depend on the stage of a transfer: the prefix brings
					// the transfers to that stage, then the acknowledgement comes that
					// would be right one stage earlier or later
					ack := wire.Ack
					for _, so := range []struct {
						name    string
						n1, n2  int
						prefix  [][]byte
						offence []byte
					}{
						{"PUBREC for the next identifier with the only transfer awaiting PUBCOMP", 0, 1, [][]byte{ack(wire.PUBREC, 0xc000)}, ack(wire.PUBREC, 0xc001)},
						{"PUBREC repeated for a transfer awaiting PUBCOMP", 0, 2, [][]byte{ack(wire.PUBREC, 0xc000)}, ack(wire.PUBREC, 0xc000)},
						{"PUBCOMP for a transfer still awaiting PUBREC, behind one awaiting PUBCOMP", 0, 2, [][]byte{ack(wire.PUBREC, 0xc000)}, ack(wire.PUBCOMP, 0xc001)},
						{"PUBCOMP repeated", 0, 2, [][]byte{ack(wire.PUBREC, 0xc000), ack(wire.PUBREC, 0xc001), ack(wire.PUBCOMP, 0xc000)}, ack(wire.PUBCOMP, 0xc000)},
						{"PUBREC after completion", 0, 1, [][]byte{ack(wire.PUBREC, 0xc000), ack(wire.PUBCOMP, 0xc000)}, ack(wire.PUBREC, 0xc000)},
						{"PUBACK repeated", 2, 0, [][]byte{ack(wire.PUBACK, 0x8000)}, ack(wire.PUBACK, 0x8000)},
						{"PUBACK for the one after next", 3, 0, [][]byte{ack(wire.PUBACK, 0x8000)}, ack(wire.PUBACK, 0x8002)},
						{"PUBACK with an exactly-once identifier in line", 1, 1, nil, ack(wire.PUBACK, 0xc000)},
						{"PUBCOMP with an at-least-once identifier in line", 1, 1, [][]byte{ack(wire.PUBREC, 0xc000)}, ack(wire.PUBCOMP, 0x8000)},
					} {
						st := hostileSetup{n1: so.n1, n2: so.n2}
						var in []byte
						for _, p := range so.prefix {
							in = append(in, p...)
							if r.Intn(2) == 0 {
								in = append(in, wire.Pingresp()...)
							}
						}
						in = append(in, so.offence...)
						in = append(in, validStream(r, hostileSetup{}, 2)...)
						save := hs
						hs = st
						try("stage: "+so.name, "stage|"+so.name, in, false, false)
						hs = save
					}
				}
				if c.Case/4%4 == 2 {
					// the acknowledgement overtakes the write of its PUBLISH
					for _, outcome := range []string{"completes", "fails", "expires", "is cut off by a reset"} {
						level := 1 + r.Intn(2)
						acks := "the first acknowledgement"
						if level == 2 && r.Intn(2) == 0 {
							acks = "both acknowledgements"
						}
						if level == 2 && outcome == "is cut off by a reset" {
							// the read routine waits for the writer with its PUBREL:
							// it cannot come to a violation behind the PUBREC
							level = 1
							acks = "the first acknowledgement"
						}
						c13AckAhead(c, "C13", level, r.Intn(3), []int{0, 1, 2, 5, 1 << 20}[r.Intn(5)], acks, outcome)
						inputs++
					}
				}
				for i, dv := range directed {
					if i%8 != (c.Case/4)%8 {
						continue
					}
					prefix := validStream(r, hs, r.Intn(7))
					in := append(append([]byte{}, prefix...), dv.b...)
					in = append(in, validStream(r, hostileSetup{}, 2)...)
					try("directed "+dv.name, "directed|"+dv.name+"|stream", in, false, false)
					try("directed "+dv.name+" right after CONNACK in one read", "directed|"+dv.name+"|handshake", append(wire.Connack(false, 0), in...), true, false)
				}
			case 1: // single-field mutations of a valid stream
				base := validStream(r, hs, 3+r.Intn(5))
				// header positions
				var starts []int
				for pos := 0; pos < len(base); {
					hl, rem, err := wire.Header(base[pos:])
					if err != nil {
						break
					}
					starts = append(starts, pos)
					pos += hl + rem
				}
				budget := 50
				if c.Tier == "thorough" {
					budget = 400
				}
				for _, st := range starts {
					hl, rem, _ := wire.Header(base[st:])
					fields := []int{st, st + 1}
					if rem >= 2 {
						fields = append(fields, st+hl, st+hl+1)
					}
					for _, f := range fields {
						for _, mv := range []func(byte) byte{func(byte) byte { return 0 }, func(b byte) byte { return b + 1 }, func(b byte) byte { return b - 1 }, func(byte) byte { return 0xff }, func(b byte) byte { return b ^ 0x80 }, func(b byte) byte { return b ^ 0x10 }, func(b byte) byte { return b ^ 0x40 }} {
							if budget <= 0 {
								break
							}
							in := append([]byte{}, base...)
							if nb := mv(in[f]); nb != in[f] {
								in[f] = nb
								budget--
								try(fmt.Sprintf("mutation of byte %d (packet at %d) to %#02x", f, st, nb), fmt.Sprintf("mutation|field=%d|type=%d", f-st, base[st]>>4), in, false, false)
							}
						}
					}
				}
				for cut := 1; cut < len(base) && budget > -40; cut++ {
					budget--
					try(fmt.Sprintf("truncation after %d bytes, broker silent", cut), "truncation", base[:cut], false, false)
				}
			case 2: // soup
				for i := 0; i < 30; i++ {
					var in []byte
					for j := 0; j < 1+r.Intn(6); j++ {
						switch r.Intn(4) {
						case 0:
							b := make([]byte, 1+r.Intn(12))
							r.Read(b)
							in = append(in, b...)
						case 1:
							in = append(in, directed[r.Intn(len(directed))].b...)
						default:
							in = append(in, validStream(r, hs, 1)...)
						}
					}
					try("byte soup", "soup", in, i%4 == 0, false)
				}
			case 3: // handshake replies
				if c.Case/4%2 == 0 {
					// a message beyond the read buffer whose payload stops short: the
					// application reads it (ReadAll) or skips it; the broker stays silent
					mqtt.VerifSetReadBufSize(64)
					for _, cut := range []int{70, 71, 100, 150, 259} {
						for _, skip := range []bool{false, true} {
							hs.skipBig = skip
							big := wire.Publish("big", bytes.Repeat([]byte{7}, 200), byte(r.Intn(3)), 9, false, false)
							in := append(validStream(r, hs, r.Intn(3)), big[:min(cut, len(big))]...)
							try(fmt.Sprintf("BigMessage truncated after %d of %d bytes (skipped by the application: %v), broker silent", cut, len(big), skip), fmt.Sprintf("big-truncated|skip=%v", skip), in, false, false)
						}
					}
					hs.skipBig = false
					// packets of other types that announce more than the read buffer holds, in
					// full: never a BigMessage, always an error and a reset
					for _, typ := range []byte{wire.PUBACK, wire.PUBREC, wire.PUBREL, wire.PUBCOMP, wire.SUBACK, wire.UNSUBACK, wire.PINGRESP} {
						body := bytes.Repeat([]byte{0x60, 0x00}, 40+r.Intn(60))
						if r.Intn(2) == 0 {
							// bytes that would read as a short topic if the packet were taken for a PUBLISH
							copy(body, []byte{0x00, 0x03, 'a', '/', 'b', 0x00, 0x07})
						}
						pk := append([]byte{typ << 4, byte(len(body))}, body...)
						if typ == wire.PUBREL {
							pk[0] |= 2
						}
						in := append(validStream(r, hs, r.Intn(3)), pk...)
						in = append(in, validStream(r, hostileSetup{}, 2)...)
						try(fmt.Sprintf("%s of %d bytes, beyond the read buffer", wire.TypeName(typ), len(pk)), "oversize|"+wire.TypeName(typ), in, false, false)
					}
					// a PUBLISH beyond the read buffer that is itself a violation
					for _, kind := range []string{"qos3", "id-zero"} {
						big := wire.Publish("big/bad", bytes.Repeat([]byte{9}, 150+r.Intn(100)), byte(1+r.Intn(2)), 9, false, false)
						if kind == "qos3" {
							big[0] |= 6
						} else {
							hl, _, _ := wire.Header(big)
							tl := int(big[hl])<<8 | int(big[hl+1])
							big[hl+2+tl], big[hl+2+tl+1] = 0, 0
						}
						in := append(validStream(r, hs, r.Intn(3)), big...)
						try("PUBLISH beyond the read buffer with "+kind, "big-violation|"+kind, in, false, false)
					}
					mqtt.VerifSetReadBufSize(128 * 1024)
				}
				k := c.Case / 4
				for code := (k % 8) * 32; code < (k%8)*32+32; code++ {
					try(fmt.Sprintf("CONNACK return code %d", code), fmt.Sprintf("connack|code=%d", min(code, 6)), []byte{0x20, 2, 0, byte(code)}, true, false)
				}
				for _, fl := range []byte{0, 1, 2, 0x80, 0xff} {
					for _, clean := range []bool{false, true} {
						try(fmt.Sprintf("CONNACK flags %#02x clean=%v", fl, clean), fmt.Sprintf("connack|flags=%#x|clean=%v", fl, clean), append([]byte{0x20, 2, fl, 0}, validStream(r, hostileSetup{}, 2)...), true, clean)
					}
				}
				for _, in := range [][]byte{{}, {0x20}, {0x20, 2}, {0x20, 2, 0}, {0x20, 3, 0, 0, 0}, {0x30, 2, 0, 0}, {0xd0, 0}, {0x20, 0}, {0x21, 2, 0, 0}} {
					try(fmt.Sprintf("handshake reply %x then silence", in), fmt.Sprintf("connack|short=%d", len(in)), in, true, false)
				}
			}
			c.Count("hostile_inputs", inputs)
			c.Count("inputs_with_offence", offences)
			c.Sample(map[string]any{"generator": []string{"directed", "mutation", "soup", "handshake"}[c.Case%4], "outstanding": fmt.Sprintf("%+v", hs), "inputs": inputs, "offences": offences})
		},
	})
}

var fuzzExecsRE = regexp.MustCompile(`execs: (\d+)`)
var fuzzTotalRE = regexp.MustCompile(`\(total: (\d+)\)`)
var fuzzFileRE = regexp.MustCompile(`Failing input written to (\S+)`)

// fuzzSession runs Go's coverage-guided fuzzing engine on a target of this
// package for the given number of seconds and reports its outcome like a case.
func fuzzSession(target string, seconds int) *run.CaseResult {
	res := &run.CaseResult{Counts: map[string]int{}}
	dir := filepath.Join(run.Root, "harness")
	args := []string{"test"}
	if mf := os.Getenv("VERIF_MODFILE"); mf != "" {
		args = append(args, "-modfile="+mf)
	}
	args = append(args, "-tags", "verif", "-run", "^$", "-fuzz", "^"+target+"$", "-fuzztime", fmt.Sprintf("%ds", seconds), "./props")
	cmd := exec.Command("go", args...)
	cmd.Dir = dir
	out, err := cmd.CombinedOutput()
	text := string(out)
	if m := fuzzExecsRE.FindAllStringSubmatch(text, -1); len(m) > 0 {
		n, _ := strconv.Atoi(m[len(m)-1][1])
		res.Counts["fuzz_executions"] = n
	}
	if m := fuzzTotalRE.FindAllStringSubmatch(text, -1); len(m) > 0 {
		n, _ := strconv.Atoi(m[len(m)-1][1])
		res.Counts["fuzz_corpus_entries_with_new_coverage"] = n
	}
	res.Counts["fuzz_seconds"] = seconds
	switch {
	case err == nil:
		res.Shapes = []string{"fuzz|" + target}
		res.Samples = []any{map[string]any{"generator": "coverage-guided fuzzing (go test -fuzz)", "target": target, "executions": res.Counts["fuzz_executions"], "inputs_with_new_coverage": res.Counts["fuzz_corpus_entries_with_new_coverage"]}}
	case strings.Contains(text, "Failing input written to"):
		file := ""
		if m := fuzzFileRE.FindStringSubmatch(text); m != nil {
			file = filepath.Join(dir, "props", m[1])
		}
		content, _ := os.ReadFile(file)
		msg := "the fuzzing engine found an input that fails the oracle"
		sig := "fuzz-finding"
		for _, l := range strings.Split(text, "\n") {
			if i := strings.Index(l, "fuzz_test.go:"); i >= 0 {
				msg = strings.TrimSpace(l[i:])
				if a, b := strings.Index(msg, "["), strings.Index(msg, "]"); a >= 0 && b > a {
					sig = msg[a+1 : b]
				}
				break
			}
		}
		res.Violations = []run.Violation{{Sig: sig, Msg: msg, Detail: map[string]any{"fuzz_input_file": file, "fuzz_input": string(content), "rerun": "cd /verif/harness && go test -tags verif -run=" + target + "/" + filepath.Base(file) + " ./props"}}}
	default:
		res.Inconclusive = []string{"fuzzing session did not run: " + firstLine(strings.TrimSpace(text))}
	}
	return res
}

// renameIDs swaps the placeholder identifiers of the pending Subscribe and
// Unsubscribe with the ones the client really assigned, in SUBACK and UNSUBACK
// packets, following the framing as far as it holds.
func renameIDs(in []byte, subID, unsubID uint16) []byte {
	out := append([]byte{}, in...)
	for pos := 0; pos < len(out); {
		hl, rem, err := wire.Header(out[pos:])
		if err != nil || pos+hl+rem > len(out) {
			break
		}
		if rem >= 2 {
			id := uint16(out[pos+hl])<<8 | uint16(out[pos+hl+1])
			var a, b uint16
			switch out[pos] >> 4 {
			case wire.SUBACK:
				a, b = 0x6000, subID
			case wire.UNSUBACK:
				a, b = 0x4000, unsubID
			}
			if a != b {
				switch id {
				case a:
					id = b
				case b:
					id = a
				}
				out[pos+hl], out[pos+hl+1] = byte(id>>8), byte(id)
			}
		}
		pos += hl + rem
	}
	return out
}
