package props

import (
	"bytes"
	"errors"
	"fmt"
	"runtime"
	"sort"
	"strings"
	"sync"
	"testing"
	"time"

	"github.com/pascaldekloe/mqtt"
	"github.com/pascaldekloe/mqtt/mqtttest"

	"verif/run"
	"verif/sim"
)

// recTB is a recording testing.TB. Only the methods the doubles may use are
// implemented; the embedded nil interface satisfies the unexported rest.
type recTB struct {
	testing.TB
	mu       sync.Mutex
	fails    []string
	cleanups []func()
}

func (t *recTB) Helper()      {}
func (t *recTB) Name() string { return "recording" }
func (t *recTB) rec(s string) {
	t.mu.Lock()
	t.fails = append(t.fails, s)
	t.mu.Unlock()
}
func (t *recTB) Error(a ...any)            { t.rec(fmt.Sprint(a...)) }
func (t *recTB) Errorf(f string, a ...any) { t.rec(fmt.Sprintf(f, a...)) }
func (t *recTB) Fail()                     { t.rec("Fail") }
func (t *recTB) FailNow()                  { t.rec("FailNow"); runtime.Goexit() }
func (t *recTB) Fatal(a ...any)            { t.rec(fmt.Sprint(a...)); runtime.Goexit() }
func (t *recTB) Fatalf(f string, a ...any) { t.rec(fmt.Sprintf(f, a...)); runtime.Goexit() }
func (t *recTB) Log(a ...any)              {}
func (t *recTB) Logf(f string, a ...any)   {}
func (t *recTB) Failed() bool              { return t.count() != 0 }
func (t *recTB) Cleanup(f func()) {
	t.mu.Lock()
	t.cleanups = append(t.cleanups, f)
	t.mu.Unlock()
}
func (t *recTB) count() int {
	t.mu.Lock()
	defer t.mu.Unlock()
	return len(t.fails)
}
func (t *recTB) runCleanups() {
	for i := len(t.cleanups) - 1; i >= 0; i-- {
		guard(t.cleanups[i])
	}
}

// guard runs f in its own goroutine; it reports a panic value and whether f
// ran to its end (false after Goexit).
func guard(f func()) (panicked any, finished bool) {
	done := make(chan struct{})
	go func() {
		defer close(done)
		defer func() { panicked = recover() }()
		f()
		finished = true
	}()
	<-done
	return
}

var closedQuit = func() chan struct{} { c := make(chan struct{}); close(c); return c }()

var errFix = errors.New("scripted result")

type pubSym struct{ msg, topic int }

func (s pubSym) transfer(i int) mqtttest.Transfer {
	t := mqtttest.Transfer{Message: []byte(fmt.Sprintf("message-%d", s.msg)), Topic: fmt.Sprintf("topic/%d", s.topic)}
	if i%2 == 1 {
		t.Err = errFix
	}
	return t
}

// publishMockCase checks one (expectation list, invocation sequence) pair.
// An invocation symbol -1 is a call with a closed quit.
func publishMockCase(c *run.Ctx, want []pubSym, calls []int) bool {
	tb := &recTB{}
	var transfers []mqtttest.Transfer
	for i, s := range want {
		transfers = append(transfers, s.transfer(i))
	}
	var mock func(quit <-chan struct{}, message []byte, topic string) error
	if p, _ := guard(func() { mock = mqtttest.NewPublishMock(tb, transfers...) }); p != nil {
		c.Violate("double-panics", fmt.Sprintf("NewPublishMock panicked: %v", p), nil)
		return false
	}
	desc := func() string { return fmt.Sprintf("NewPublishMock want=%v calls=%v", want, calls) }
	consumed := 0
	for _, sym := range calls {
		before := tb.count()
		var err error
		var quit <-chan struct{}
		s := pubSym{sym / 2, sym % 2}
		if sym < 0 {
			quit = closedQuit
			s = pubSym{0, 0}
		} else if sym%3 == 0 {
			quit = make(chan struct{}) // open
		}
		p, fin := guard(func() {
			err = mock(quit, []byte(fmt.Sprintf("message-%d", s.msg)), fmt.Sprintf("topic/%d", s.topic))
		})
		if p != nil {
			c.Violate("double-panics", fmt.Sprintf("%s: invocation panicked: %v", desc(), p), nil)
			return false
		}
		failed := tb.count() > before
		if sym < 0 {
			if !errors.Is(err, mqtt.ErrCanceled) || failed || !fin {
				c.Violate("closed-quit-contract", fmt.Sprintf("%s: call with closed quit gave %v (failure recorded: %v)", desc(), err, failed), nil)
				return false
			}
			continue
		}
		wantFail := consumed >= len(want) || want[consumed] != s
		if failed != wantFail {
			c.Violate("mock-verdict-wrong", fmt.Sprintf("%s: invocation %d (message %d, topic %d) failure recorded=%v, want %v", desc(), consumed, s.msg, s.topic, failed, wantFail), nil)
			return false
		}
		if consumed < len(want) {
			if wantErr := transfers[consumed].Err; err != wantErr {
				c.Violate("mock-result-wrong", fmt.Sprintf("%s: invocation %d returned %v, want %v", desc(), consumed, err, wantErr), nil)
				return false
			}
		}
		consumed++
	}
	before := tb.count()
	tb.runCleanups()
	// after a surplus call the test has failed already; what the cleanup adds
	// then does not change the verdict
	if failed, wantFail := tb.count() > before, consumed < len(want); failed != wantFail && consumed <= len(want) {
		c.Violate("mock-count-verdict-wrong", fmt.Sprintf("%s: after %d calls the cleanup recorded failure=%v, want %v", desc(), consumed, failed, wantFail), nil)
		return false
	}
	return true
}

var filterNames = []string{"a", "b", "c"}

// filter sets as bit masks over filterNames; calls as sequences of indices.
func subscribeMockCase(c *run.Ctx, unsub bool, want [][]int, calls [][]int) bool {
	tb := &recTB{}
	var filters []mqtttest.Filter
	for i, w := range want {
		f := mqtttest.Filter{}
		for _, x := range w {
			f.Topics = append(f.Topics, filterNames[x])
		}
		if i%2 == 1 {
			f.Err = errFix
		}
		filters = append(filters, f)
	}
	name := "NewSubscribeMock"
	var mock func(quit <-chan struct{}, topicFilters ...string) error
	if unsub {
		name = "NewUnsubscribeMock"
		mock = mqtttest.NewUnsubscribeMock(tb, filters...)
	} else {
		mock = mqtttest.NewSubscribeMock(tb, filters...)
	}
	desc := func() string { return fmt.Sprintf("%s want=%v calls=%v", name, want, calls) }
	consumed := 0
	for _, call := range calls {
		before := tb.count()
		var args []string
		closed := false
		for _, x := range call {
			if x < 0 {
				closed = true
				continue
			}
			args = append(args, filterNames[x])
		}
		var quit <-chan struct{}
		if closed {
			quit = closedQuit
		}
		var err error
		p, fin := guard(func() { err = mock(quit, args...) })
		if p != nil {
			c.Violate("double-panics", fmt.Sprintf("%s: invocation panicked: %v", desc(), p), nil)
			return false
		}
		failed := tb.count() > before
		if len(args) == 0 {
			// invalid use is flagged and ends the test
			if !failed {
				c.Violate("mock-verdict-wrong", fmt.Sprintf("%s: call without filters recorded no failure", desc()), nil)
				return false
			}
			if !fin {
				return true
			}
			continue
		}
		if closed {
			if !errors.Is(err, mqtt.ErrCanceled) || failed {
				c.Violate("closed-quit-contract", fmt.Sprintf("%s: call with closed quit gave %v (failure recorded: %v)", desc(), err, failed), nil)
				return false
			}
			continue
		}
		wantFail := consumed >= len(want)
		if !wantFail {
			a := append([]string{}, args...)
			b := append([]string{}, filters[consumed].Topics...)
			sort.Strings(a)
			sort.Strings(b)
			wantFail = strings.Join(a, ",") != strings.Join(b, ",")
		}
		if failed != wantFail {
			c.Violate("mock-verdict-wrong", fmt.Sprintf("%s: invocation %d with %v failure recorded=%v, want %v", desc(), consumed, args, failed, wantFail), nil)
			return false
		}
		if consumed < len(want) && err != filters[consumed].Err {
			c.Violate("mock-result-wrong", fmt.Sprintf("%s: invocation %d returned %v, want %v", desc(), consumed, err, filters[consumed].Err), nil)
			return false
		}
		consumed++
	}
	before := tb.count()
	tb.runCleanups()
	// after a surplus call the test has failed already; what the cleanup adds
	// then does not change the verdict
	if failed, wantFail := tb.count() > before, consumed < len(want); failed != wantFail && consumed <= len(want) {
		c.Violate("mock-count-verdict-wrong", fmt.Sprintf("%s: after %d calls the cleanup recorded failure=%v, want %v", desc(), consumed, failed, wantFail), nil)
		return false
	}
	return true
}

// exchange scripts: 0 plain error, 1 ErrClosed, 2 finite block, 3 indefinite block.
func exchangeCase(c *run.Ctx, script []int, withErrFix bool) bool {
	var fix []error
	for i, k := range script {
		switch k {
		case 0:
			fix = append(fix, fmt.Errorf("scripted %d", i))
		case 1:
			fix = append(fix, fmt.Errorf("%w; wrapped %d", mqtt.ErrClosed, i))
		case 2:
			fix = append(fix, mqtttest.ExchangeBlock{Delay: time.Millisecond})
		case 3:
			fix = append(fix, mqtttest.ExchangeBlock{})
		case 4:
			fix = append(fix, nil)
		case 5:
			// only zero stands for "indefinite": a negative delay is a pause of no time
			fix = append(fix, mqtttest.ExchangeBlock{Delay: -time.Millisecond})
		}
	}
	// which scripts the constructor must refuse
	wantPanic := false
	for i, k := range script {
		if k == 4 || (k == 1 || k == 3) && i+1 < len(script) {
			wantPanic = true
		}
	}
	var ef error
	if withErrFix {
		ef = errFix
		if len(script) != 0 {
			wantPanic = true
		}
	}
	desc := fmt.Sprintf("NewPublishExchangeStub(errFix=%v, script=%v)", withErrFix, script)
	var stub func(message []byte, topic string) (<-chan error, error)
	p, _ := guard(func() { stub = mqtttest.NewPublishExchangeStub(ef, fix...) })
	if (p != nil) != wantPanic {
		c.Violate("exchange-stub-constructor", fmt.Sprintf("%s: panic=%v, want panic=%v", desc, p, wantPanic), nil)
		return false
	}
	if wantPanic {
		return true
	}
	// every invocation of one stub plays the whole script
	for inv := 0; inv < 2; inv++ {
		if !func() bool {
			x, err := stub([]byte("m"), "t")
			if withErrFix {
				if err != errFix || x != nil {
					c.Violate("exchange-stub-result", fmt.Sprintf("%s: returned (%v, %v)", desc, x, err), nil)
					return false
				}
				return true
			}
			if err != nil || x == nil {
				c.Violate("exchange-stub-result", fmt.Sprintf("%s: returned error %v", desc, err), nil)
				return false
			}
			staysOpen := false
			for i, k := range script {
				if k == 2 || k == 3 || k == 5 {
					if k == 3 {
						staysOpen = true
					}
					continue
				}
				select {
				case got, ok := <-x:
					if !ok || got != fix[i] {
						c.Violate("exchange-stub-sequence", fmt.Sprintf("%s: entry %d delivered (%v, open=%v), want %v", desc, i, got, ok, fix[i]), nil)
						return false
					}
				case <-time.After(5 * time.Second):
					if sim.Starved(200 * time.Millisecond) {
						c.Inconclusive("machine overloaded while waiting for the exchange stub")
						return false
					}
					c.Violate("exchange-stub-sequence", fmt.Sprintf("%s: entry %d never delivered", desc, i), nil)
					return false
				}
				if k == 1 {
					staysOpen = true
				}
			}
			if staysOpen {
				select {
				case got, ok := <-x:
					c.Violate("exchange-stub-end", fmt.Sprintf("%s: channel must stay open and silent, got (%v, open=%v)", desc, got, ok), nil)
					return false
				case <-time.After(20 * time.Millisecond):
				}
				return true
			}
			select {
			case got, ok := <-x:
				if ok {
					c.Violate("exchange-stub-end", fmt.Sprintf("%s: surplus value %v", desc, got), nil)
					return false
				}
			case <-time.After(5 * time.Second):
				if sim.Starved(200 * time.Millisecond) {
					c.Inconclusive("machine overloaded while waiting for the exchange stub")
					return false
				}
				c.Violate("exchange-stub-end", fmt.Sprintf("%s: channel not closed after the script", desc), nil)
				return false
			}
			return true
		}() {
			return false
		}
		if withErrFix {
			break
		}
	}
	return true
}

// publishMockEmpty: a zero-length message matches a zero-length message,
// whether either side holds nil or an empty slice.
func publishMockEmpty(c *run.Ctx) bool {
	for _, wantNil := range []bool{true, false} {
		for _, callNil := range []bool{true, false} {
			tb := &recTB{}
			want := mqtttest.Transfer{Message: []byte{}, Topic: "retained/topic"}
			if wantNil {
				want.Message = nil
			}
			mock := mqtttest.NewPublishMock(tb, want)
			msg := []byte{}
			if callNil {
				msg = nil
			}
			var err error
			if p, _ := guard(func() { err = mock(nil, msg, "retained/topic") }); p != nil {
				c.Violate("double-panics", fmt.Sprintf("NewPublishMock with an empty message panicked: %v", p), nil)
				return false
			}
			tb.runCleanups()
			if tb.count() != 0 || err != nil {
				c.Violate("mock-verdict-wrong", fmt.Sprintf("NewPublishMock: expectation with a zero-length message (nil=%v) and a matching call with a zero-length message (nil=%v): failures recorded %d, error %v", wantNil, callNil, tb.count(), err), nil)
				return false
			}
		}
	}
	return true
}

// subscribeMockSpaces: filters are compared one by one, not as joined text.
func subscribeMockSpaces(c *run.Ctx) bool {
	for _, unsub := range []bool{false, true} {
		for _, tc := range []struct {
			want, call []string
			deviates   bool
		}{
			{[]string{"alerts", "news"}, []string{"alerts news"}, true},
			{[]string{"a b", "c"}, []string{"a", "b c"}, true},
			{[]string{"a b", "c"}, []string{"c", "a b"}, false},
			{[]string{"x y"}, []string{"x y"}, false},
		} {
			tb := &recTB{}
			f := mqtttest.Filter{Topics: tc.want}
			var mock func(quit <-chan struct{}, topicFilters ...string) error
			if unsub {
				mock = mqtttest.NewUnsubscribeMock(tb, f)
			} else {
				mock = mqtttest.NewSubscribeMock(tb, f)
			}
			if p, _ := guard(func() { mock(nil, tc.call...) }); p != nil {
				c.Violate("double-panics", fmt.Sprintf("subscribe mock panicked on filters with spaces: %v", p), nil)
				return false
			}
			if failed := tb.count() != 0; failed != tc.deviates {
				c.Violate("mock-verdict-wrong", fmt.Sprintf("subscribe mock (unsubscribe=%v) want %q call %q: failure recorded=%v, want %v", unsub, tc.want, tc.call, failed, tc.deviates), nil)
				return false
			}
		}
	}
	return true
}

func readSlicesCases(c *run.Ctx) bool {
	for _, n := range []int{0, 1, 5} {
		fix := mqtttest.Transfer{Message: bytes.Repeat([]byte("m"), n), Topic: strings.Repeat("t", n+1), Err: nil}
		if n == 1 {
			fix.Err = errFix
		}
		orig := append([]byte{}, fix.Message...)
		stub := mqtttest.NewReadSlicesStub(fix)
		m1, t1, e1 := stub()
		if !bytes.Equal(m1, orig) || string(t1) != fix.Topic || e1 != fix.Err {
			c.Violate("readslices-stub-result", fmt.Sprintf("stub returned (%q, %q, %v)", m1, t1, e1), nil)
			return false
		}
		// a private copy is private also against its neighbour: growing the
		// message must not reach into the topic of the same call
		topicBefore := string(t1)
		_ = append(m1, 'Z')
		if string(t1) != topicBefore {
			c.Violate("readslices-stub-aliases", fmt.Sprintf("appending to the returned message changed the returned topic from %q to %q", topicBefore, t1), nil)
			return false
		}
		_ = append(t1, 'Z')
		if !bytes.Equal(m1, orig) {
			c.Violate("readslices-stub-aliases", fmt.Sprintf("appending to the returned topic changed the returned message to %q", m1), nil)
			return false
		}
		for i := range m1 {
			m1[i] = 'X'
		}
		for i := range t1 {
			t1[i] = 'Y'
		}
		m2, t2, _ := stub()
		if !bytes.Equal(m2, orig) || string(t2) != fix.Topic {
			c.Violate("readslices-stub-aliases", fmt.Sprintf("after overwriting the first return, the second call gives (%q, %q), want (%q, %q)", m2, t2, orig, fix.Topic), nil)
			return false
		}
		if !bytes.Equal(fix.Message, orig) {
			c.Violate("readslices-stub-aliases", "overwriting a returned slice changed the fixture", nil)
			return false
		}
	}
	// mock: order, surplus call, missing calls
	for nWant := 0; nWant <= 3; nWant++ {
		for nCalls := 0; nCalls <= 4; nCalls++ {
			tb := &recTB{}
			var want []mqtttest.Transfer
			for i := 0; i < nWant; i++ {
				want = append(want, mqtttest.Transfer{Message: []byte{byte('a' + i)}, Topic: fmt.Sprint("t", i)})
			}
			mock := mqtttest.NewReadSlicesMock(tb, want...)
			for i := 0; i < nCalls; i++ {
				before := tb.count()
				var m, tp []byte
				var err error
				if p, _ := guard(func() { m, tp, err = mock() }); p != nil {
					c.Violate("double-panics", fmt.Sprintf("NewReadSlicesMock call %d of %d panicked: %v", i, nWant, p), nil)
					return false
				}
				failed := tb.count() > before
				if i < nWant {
					if failed || err != nil || !bytes.Equal(m, want[i].Message) || string(tp) != want[i].Topic {
						c.Violate("readslices-mock-result", fmt.Sprintf("call %d gave (%q, %q, %v), failure=%v", i, m, tp, err, failed), nil)
						return false
					}
					// what the double hands out is the consumer's: overwriting it (as a read
					// loop that decodes in place does) must leave the expectation alone
					for j := range m {
						m[j] = '!'
					}
					for j := range tp {
						tp[j] = '!'
					}
					if want[i].Message[0] != byte('a'+i) || want[i].Topic != fmt.Sprint("t", i) {
						c.Violate("readslices-mock-aliases", fmt.Sprintf("overwriting the slices of call %d changed the caller's Transfer to (%q, %q)", i, want[i].Message, want[i].Topic), nil)
						return false
					}
				} else if !failed || err == nil {
					c.Violate("mock-verdict-wrong", fmt.Sprintf("NewReadSlicesMock: surplus call %d of %d recorded failure=%v err=%v", i, nWant, failed, err), nil)
					return false
				}
			}
			before := tb.count()
			tb.runCleanups()
			if failed, wantFail := tb.count() > before, nCalls < nWant; failed != wantFail && nCalls <= nWant {
				c.Violate("mock-count-verdict-wrong", fmt.Sprintf("NewReadSlicesMock: %d calls of %d wanted: cleanup failure=%v", nCalls, nWant, failed), nil)
				return false
			}
		}
	}
	// stubs
	for _, fix := range []error{nil, errFix} {
		ps := mqtttest.NewPublishStub(fix)
		if err := ps(nil, []byte("m"), "t"); err != fix {
			c.Violate("stub-result", fmt.Sprintf("NewPublishStub(%v) returned %v", fix, err), nil)
			return false
		}
		if err := ps(closedQuit, []byte("m"), "t"); !errors.Is(err, mqtt.ErrCanceled) {
			c.Violate("closed-quit-contract", fmt.Sprintf("NewPublishStub with closed quit returned %v", err), nil)
			return false
		}
		if err := ps(make(chan struct{}), []byte("m"), "t"); err != fix {
			c.Violate("stub-result", fmt.Sprintf("NewPublishStub(%v) with open quit returned %v", fix, err), nil)
			return false
		}
		for _, ss := range []func(<-chan struct{}, ...string) error{mqtttest.NewSubscribeStub(fix), mqtttest.NewUnsubscribeStub(fix)} {
			if err := ss(nil, "a"); err != fix {
				c.Violate("stub-result", fmt.Sprintf("subscribe stub(%v) returned %v", fix, err), nil)
				return false
			}
			if err := ss(closedQuit, "a", "b"); !errors.Is(err, mqtt.ErrCanceled) {
				c.Violate("closed-quit-contract", fmt.Sprintf("subscribe stub with closed quit returned %v", err), nil)
				return false
			}
		}
	}
	return true
}

// seqs enumerates all sequences over symbols of length lo..hi.
func seqs(symbols []int, lo, hi int) [][]int {
	var out [][]int
	var rec func(cur []int)
	rec = func(cur []int) {
		if len(cur) >= lo {
			out = append(out, append([]int{}, cur...))
		}
		if len(cur) == hi {
			return
		}
		for _, s := range symbols {
			rec(append(cur, s))
		}
	}
	rec(nil)
	return out
}

func init() {
	const parts = 16
	run.Register(&run.Prop{
		ID:          "C20",
		Level:       "exploration",
		Exhaustive:  true,
		Cases:       func(tier string) int { return parts },
		ChunkSize:   1,
		Rule:        "exhaustive small scope, split over 16 cases: NewPublishMock over ALL expectation lists of length 0-3 x ALL invocation sequences of length 0-4 over {2 messages x 2 topics, closed quit} (85 x 781 pairs); NewSubscribeMock and NewUnsubscribeMock over all expectation lists of length 0-2 of non-empty filter sets over {a,b,c} (in one order each) x all invocation sequences of length 0-2 whose calls are filter sequences of length 0-3 with repetitions, or a closed quit; NewPublishExchangeStub over ALL scripts of length 0-3 over {plain error, ErrClosed, finite block, indefinite block, nil} with and without errFix (constructor panics exactly for the documented misuse); NewReadSlicesStub/Mock, NewPublishStub, NewSubscribeStub, NewUnsubscribeStub on their contracts. The doubles run against a recording testing.TB; oracle = reference semantics: a failure is recorded iff message or topic differs (publish), the filter multiset differs (subscribe), or the number of calls differs (surplus call at once, missing calls at cleanup); never a panic on a wrong call; closed quit => ErrCanceled without consuming an expectation; returned slices are private; exchange delivers the scripted errors in order then closes unless it ends in ErrClosed or an indefinite block. Every pair is non-trivial; distinct by (double, expectation list length, sequence length, verdict).",
		Assumptions: []string{"expectation lists for the subscribe mocks hold each filter once (a repeated filter inside one expectation is outside the stated contract)", "'stays open' is observed for 20 ms; finite ExchangeBlock delays are 1 ms"},
		Run: func(c *run.Ctx) {
			part := c.Case
			n := 0
			// publish mock
			var lists [][]int
			for _, l := range seqs([]int{0, 1, 2, 3}, 0, 3) {
				lists = append(lists, l)
			}
			calls := seqs([]int{0, 1, 2, 3, -1}, 0, 4)
			for li, l := range lists {
				if li%parts != part {
					continue
				}
				var want []pubSym
				for _, s := range l {
					want = append(want, pubSym{s / 2, s % 2})
				}
				for _, cs := range calls {
					n++
					if !publishMockCase(c, want, cs) {
						return
					}
				}
				c.Trigger(fmt.Sprintf("publish-mock|want=%d", len(l)))
			}
			c.Count("publish_mock_pairs", n)
			// subscribe mocks
			sets := [][]int{{0}, {1}, {2}, {0, 1}, {2, 0}, {1, 2}, {2, 1, 0}}
			var wantLists [][][]int
			wantLists = append(wantLists, nil)
			for _, a := range sets {
				wantLists = append(wantLists, [][]int{a})
				for _, b := range sets {
					wantLists = append(wantLists, [][]int{a, b})
				}
			}
			callSyms := seqs([]int{0, 1, 2}, 0, 3)
			callSyms = append(callSyms, []int{-1, 0})
			var callSeqs [][][]int
			callSeqs = append(callSeqs, nil)
			for _, a := range callSyms {
				callSeqs = append(callSeqs, [][]int{a})
				for _, b := range callSyms {
					callSeqs = append(callSeqs, [][]int{a, b})
				}
			}
			m := 0
			for wi, wl := range wantLists {
				if wi%parts != part {
					continue
				}
				for _, cs := range callSeqs {
					m++
					if !subscribeMockCase(c, wi%2 == 1, wl, cs) {
						return
					}
				}
				c.Trigger(fmt.Sprintf("subscribe-mock|want=%d|unsub=%v", len(wl), wi%2 == 1))
			}
			c.Count("subscribe_mock_pairs", m)
			// exchange stub scripts
			k := 0
			for si, sc := range seqs([]int{0, 1, 2, 3, 4, 5}, 0, 3) {
				if si%parts != part {
					continue
				}
				for _, ef := range []bool{false, true} {
					k++
					if !exchangeCase(c, sc, ef) {
						return
					}
				}
				c.Trigger(fmt.Sprintf("exchange-stub|len=%d", len(sc)))
			}
			c.Count("exchange_scripts", k)
			if part == 0 {
				if !publishMockEmpty(c) || !subscribeMockSpaces(c) {
					return
				}
				if !readSlicesCases(c) {
					return
				}
				c.Trigger("readslices-and-stubs")
			}
			c.Sample(map[string]any{"part": part, "publish_mock_pairs": n, "subscribe_mock_pairs": m, "exchange_scripts": k, "example": "NewPublishMock want=[{0 1} {1 0}] calls=[1 -1 2 0]"})
		},
	})
}
