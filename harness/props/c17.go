package props

import (
	"errors"
	"fmt"
	"io"
	"math/rand"
	"sort"
	"strconv"
	"strings"
	"sync/atomic"
	"time"

	"github.com/pascaldekloe/mqtt"

	"verif/run"
	"verif/sim"
	"verif/wire"
)

func newRand(seed int64) *rand.Rand { return rand.New(rand.NewSource(seed)) }

// effMax is the documented normalisation of AtLeastOnceMax/ExactlyOnceMax.
func effMax(m int) int {
	if m < 0 || m > 0x4000 {
		return 0x4000
	}
	return m
}

var c17Maxes = []int{0, 1, 2, 3, 7, 16383, 16384, -1, 16385, 100000}

// idRanges checks every identifier-carrying packet the client wrote against
// the range of its kind.
func idRanges(c *run.Ctx, w *sim.World) (checked int) {
	w.Mu.Lock()
	defer w.Mu.Unlock()
	for _, cn := range w.Conns {
		pk, _, _ := wire.ParseStream(cn.Out, true)
		for _, p := range pk {
			lo, hi := 0, 0
			switch {
			case p.Type == wire.PUBLISH && p.QoS == 1:
				lo, hi = 0x8000, 0xbfff
			case p.Type == wire.PUBLISH && p.QoS == 2, p.Type == wire.PUBREL:
				lo, hi = 0xc000, 0xffff
			case p.Type == wire.SUBSCRIBE:
				lo, hi = 0x6000, 0x7fff
			case p.Type == wire.UNSUBSCRIBE:
				lo, hi = 0x4000, 0x5fff
			default:
				continue
			}
			checked++
			if int(p.ID) < lo || int(p.ID) > hi {
				c.Violate("identifier-out-of-range/"+wire.TypeName(p.Type), fmt.Sprintf("conn %d: %s carries identifier %#04x, outside %#04x–%#04x", cn.Idx, p, p.ID, lo, hi), nil)
				return
			}
		}
	}
	return
}

// inFlightBound checks the number of transfers in flight per level against the
// maximum. In flight at time t = accepted by t (publish returned nil) and the
// final acknowledgement not yet handed to the client's Read. The client frees a
// slot only after it got those bytes, so this count never exceeds the client's
// own; exceeding the maximum here is a violation for certain.
func inFlightBound(c *run.Ctx, ep *Episode, all []*sim.Pub, eff [3]int) (peak [3]int) {
	w := ep.W
	w.Mu.Lock()
	defer w.Mu.Unlock()
	type ev struct {
		seq   int64
		delta int
		lvl   int
	}
	var evs []ev
	// final acknowledgements per level, in delivery order
	var finals [3][]int64
	for _, cn := range w.Conns {
		ik, _, _ := wire.ParseStream(cn.In[:cn.InPos], false)
		for _, p := range ik {
			switch p.Type {
			case wire.PUBACK:
				finals[1] = append(finals[1], cn.SeqOfIn(p.Offset+len(p.Raw)))
			case wire.PUBCOMP:
				finals[2] = append(finals[2], cn.SeqOfIn(p.Offset+len(p.Raw)))
			}
		}
	}
	for lvl := 1; lvl <= 2; lvl++ {
		sort.Slice(finals[lvl], func(i, j int) bool { return finals[lvl][i] < finals[lvl][j] })
	}
	var accepted [3]int
	for _, p := range all {
		if p.Accepted() {
			evs = append(evs, ev{p.RetSeq, +1, p.Level})
			accepted[p.Level]++
		}
	}
	for lvl := 1; lvl <= 2; lvl++ {
		// a duplicate final acknowledgement (repeated PUBREL) frees nothing twice
		n := min(len(finals[lvl]), accepted[lvl])
		for _, s := range finals[lvl][:n] {
			evs = append(evs, ev{s, -1, lvl})
		}
	}
	sort.Slice(evs, func(i, j int) bool {
		if evs[i].seq != evs[j].seq {
			return evs[i].seq < evs[j].seq
		}
		return evs[i].delta < evs[j].delta
	})
	var cur [3]int
	for _, e := range evs {
		cur[e.lvl] += e.delta
		if cur[e.lvl] > peak[e.lvl] {
			peak[e.lvl] = cur[e.lvl]
		}
		if cur[e.lvl] > eff[e.lvl] {
			c.Violate("in-flight-exceeds-maximum", fmt.Sprintf("level %d: %d transfers accepted and not finally acknowledged at #%d, maximum %d", e.lvl, cur[e.lvl], e.seq, eff[e.lvl]), map[string]any{"config": fmt.Sprintf("AtLeastOnceMax=%d ExactlyOnceMax=%d", ep.Cfg.AtLeastOnceMax, ep.Cfg.ExactlyOnceMax)})
			return
		}
	}
	return
}

// probeAtLimit issues a publish that must be refused and watches that it
// returns at once with ErrMax and without effect.
func probeAtLimit(c *run.Ctx, ep *Episode, level int, what string) bool {
	d := ep.D
	w := ep.W
	done := make(chan *sim.Pub, 1)
	go func() { done <- d.Publish(level, false, 3) }()
	var p *sim.Pub
	select {
	case p = <-done:
	case <-time.After(sim.StepTimeout):
		wedged, report := w.Diagnose(1500 * time.Millisecond)
		select {
		case p = <-done:
		default:
			if wedged {
				c.Violate("publish-at-limit-blocks", fmt.Sprintf("level %d: a publish beyond the maximum (%s) does not return", level, what), map[string]any{"report": report})
			} else {
				c.Inconclusive("publish at the limit slow")
			}
			c.Spoiled()
			return false
		}
	}
	cfg := fmt.Sprintf("AtLeastOnceMax=%d ExactlyOnceMax=%d", ep.Cfg.AtLeastOnceMax, ep.Cfg.ExactlyOnceMax)
	if p.Err == nil {
		c.Violate("accepted-beyond-maximum", fmt.Sprintf("level %d: publish accepted beyond the maximum (%s; %s)", level, what, cfg), nil)
		return false
	}
	if !errors.Is(p.Err, mqtt.ErrMax) {
		c.Violate("refusal-not-errmax", fmt.Sprintf("level %d: publish beyond the maximum (%s) got %q", level, what, p.Err), nil)
		return false
	}
	w.Mu.Lock()
	defer w.Mu.Unlock()
	for i := len(w.Trace) - 1; i >= 0; i-- {
		e := w.Trace[i]
		if e.Seq <= p.CallSeq {
			break
		}
		if e.Seq < p.RetSeq && (e.Kind == "store.save" || e.Kind == "store.delete") && int(e.Key>>14) == level+1 {
			c.Violate("refused-publish-has-effect", fmt.Sprintf("level %d: the publish refused with ErrMax did %s(%#x) between call and return (%s)", level, e.Kind, e.Key, cfg), nil)
			return false
		}
	}
	return true
}

// c17Windows fills the windows of both levels against a silent broker.
func c17Windows(c *run.Ctx, m1, m2 int) {
	ep := newEpisode(c)
	w := ep.W
	defer w.Shutdown()
	w.DataCap = 64
	ep.F.Off = true
	ep.Cfg.AtLeastOnceMax, ep.Cfg.ExactlyOnceMax = m1, m2
	if err := ep.Init(); err != nil {
		c.Violate("config-refused", fmt.Sprintf("InitSession refused AtLeastOnceMax=%d ExactlyOnceMax=%d: %v", m1, m2, err), nil)
		return
	}
	eff := [3]int{0, effMax(m1), effMax(m2)}
	w.Mu.Lock()
	w.Broker.AckPolicy = func(b *sim.Broker, cn *sim.Conn, p *wire.Packet, reply []byte) string { return "hold" }
	w.Mu.Unlock()
	d := ep.D
	d.StartReader()
	w.WaitIdle(sim.StepTimeout)
	cfg := fmt.Sprintf("AtLeastOnceMax=%d ExactlyOnceMax=%d", m1, m2)

	order := []int{1, 2}
	if c.Rng.Intn(2) == 0 {
		order = []int{2, 1}
	}
	okSoFar := true
	fill := func(level int) {
		for i := 0; i < eff[level] && okSoFar; i++ {
			if p := d.Publish(level, i%5 == 0, 2); p.Err != nil {
				c.Violate("refused-below-maximum", fmt.Sprintf("level %d: publish %d refused with %q while nothing was acknowledged (%s, effective maximum %d)", level, i+1, p.Err, cfg, eff[level]), nil)
				okSoFar = false
			}
		}
		for k := 0; k < 2 && okSoFar; k++ {
			okSoFar = probeAtLimit(c, ep, level, fmt.Sprintf("%d in flight, %s", eff[level], cfg))
		}
	}
	for _, level := range order {
		fill(level)
	}
	c.Count("limit_probes", 4)
	if !okSoFar {
		d.CloseAndWait()
		return
	}

	// the broker answers; capacity comes back, and the limit stays where it was
	w.Mu.Lock()
	w.Broker.AckPolicy = nil
	w.Mu.Unlock()
	w.Broker.ReleaseHeld()
	status, report := ep.awaitOrDiagnose("windows drain once the broker answers", d.AllClosed)
	switch status {
	case "wedged":
		c.Violate("window-never-drains", "transfers did not complete after the broker answered", map[string]any{"report": report, "config": cfg})
		c.Spoiled()
		return
	case "slow":
		c.Inconclusive("window drain slow")
		c.Spoiled()
		return
	}
	w.WaitIdle(sim.StepTimeout)
	w.Mu.Lock()
	w.Broker.AckPolicy = func(b *sim.Broker, cn *sim.Conn, p *wire.Packet, reply []byte) string { return "hold" }
	w.Mu.Unlock()
	for _, level := range order {
		n := eff[level]
		if n > 40 {
			n = 1 + c.Rng.Intn(40) // a partial refill moves the window across the old range
		}
		for i := 0; i < n && okSoFar; i++ {
			if p := d.Publish(level, false, 1); p.Err != nil {
				c.Violate("capacity-not-restored", fmt.Sprintf("level %d: publish %d after the drain refused with %q (%s)", level, i+1, p.Err, cfg), nil)
				okSoFar = false
			}
		}
		if n == eff[level] && okSoFar {
			okSoFar = probeAtLimit(c, ep, level, fmt.Sprintf("%d in flight again after a drain, %s", n, cfg))
			c.Count("limit_probes", 1)
		}
	}
	w.Mu.Lock()
	w.Broker.AckPolicy = nil
	w.Mu.Unlock()
	w.Broker.ReleaseHeld()
	final := w.WaitUntil(2*sim.StepTimeout, d.AllClosed)
	w.WaitIdle(sim.StepTimeout)
	all := d.PubsSnapshot()
	a := analyzePubs(ep, all, final)
	reportPubs(c, ep, a, all, "C17")
	peak := inFlightBound(c, ep, all, eff)
	c.Count("identifiers_range_checked", idRanges(c, w))
	if !d.CloseAndWait() {
		c.Spoiled()
	}
	c.Trigger(fmt.Sprintf("windows|max1=%d|max2=%d|first=%d", m1, m2, order[0]))
	c.Sample(map[string]any{"scenario": "windows", "config": cfg, "peak_in_flight": peak[1:], "publishes": len(all)})
}

// c17History publishes enough to wrap the identifier sequence while the
// window of unacknowledged transfers keeps changing size.
func c17History(c *run.Ctx, n int, m1, m2 int, withFaults bool) {
	ep := newEpisode(c)
	w := ep.W
	defer w.Shutdown()
	w.DataCap = 48
	ep.F.Off = true
	ep.Cfg.AtLeastOnceMax, ep.Cfg.ExactlyOnceMax = m1, m2
	if err := ep.Init(); err != nil {
		c.Violate("config-refused", err.Error(), nil)
		return
	}
	eff := [3]int{0, effMax(m1), effMax(m2)}
	holdP := 0.5 + c.Rng.Float64()/2
	storeFails := 0
	noHold := 0 // publishers making room; guarded by w.Mu
	w.Mu.Lock()
	w.Broker.AckPolicy = func(b *sim.Broker, cn *sim.Conn, p *wire.Packet, reply []byte) string {
		if noHold == 0 && w.Rng.Float64() < holdP {
			return "hold"
		}
		return ""
	}
	if withFaults {
		w.Store.Fail = func(op string, key uint, n int) bool {
			if op == "save" && isOutboundKey(key) && w.Rng.Intn(400) == 0 {
				storeFails++
				return true
			}
			return false
		}
	}
	w.Mu.Unlock()
	d := ep.D
	d.StartReader()
	w.WaitIdle(sim.StepTimeout)
	cfg := fmt.Sprintf("AtLeastOnceMax=%d ExactlyOnceMax=%d", m1, m2)

	type plan struct {
		window int
		denied int
		errmax int
		tries  int
		drain  time.Duration
	}
	var plans [3]*plan
	doneCh := make(chan int, 2)
	seeds := [3]int64{0, c.Rng.Int63(), c.Rng.Int63()}
	for lvl := 1; lvl <= 2; lvl++ {
		if eff[lvl] == 0 {
			doneCh <- lvl
			continue
		}
		pl := &plan{window: 1 + c.Rng.Intn(min(eff[lvl], 64))}
		if c.Rng.Intn(3) == 0 {
			pl.window = min(eff[lvl], 300)
		}
		plans[lvl] = pl
		go func(lvl int, pl *plan, seed int64) {
			defer func() { doneCh <- lvl }()
			rng := newRand(seed)
			for i := 0; i < n; i++ {
				if withFaults && rng.Intn(150) == 0 {
					// a denial must not take an identifier
					var err error
					if lvl == 1 {
						_, err = d.C.PublishAtLeastOnce([]byte("x"), "bad\x00topic")
					} else {
						_, err = d.C.PublishExactlyOnce([]byte("x"), "bad\x00topic")
					}
					if err == nil || !mqtt.IsDeny(err) {
						c.Violate("illegal-topic-not-denied", fmt.Sprintf("level %d: publish with NUL in the topic got %v", lvl, err), nil)
						return
					}
					pl.denied++
				}
				// what is open before the call bounds the window during it: only this
				// goroutine adds to the level
				w.Mu.Lock()
				openBefore := d.OpenByLevel[lvl]
				w.Mu.Unlock()
				p := d.Publish(lvl, false, rng.Intn(6))
				if p.Err != nil {
					switch {
					case errors.Is(p.Err, mqtt.ErrMax):
						pl.errmax++
						if openBefore < eff[lvl] {
							c.Violate("refused-below-maximum", fmt.Sprintf("level %d: ErrMax with at most %d transfers in flight, maximum %d (%s)", lvl, openBefore, eff[lvl], cfg), nil)
							return
						}
					case errors.Is(p.Err, sim.ErrStore):
					default:
						c.Violate("publish-fails-on-healthy-connection", fmt.Sprintf("level %d: publish %d got %q", lvl, i, p.Err), nil)
						return
					}
					// make room: the broker answers until the window has a free slot
					t0 := time.Now()
					w.Mu.Lock()
					noHold++
					w.Mu.Unlock()
					for try := 0; try < 400; try++ {
						pl.tries++
						w.Broker.ReleaseHeld()
						if w.WaitUntil(20*time.Millisecond, func() bool { return d.OpenByLevel[lvl] < eff[lvl] }) {
							break
						}
					}
					w.Mu.Lock()
					noHold--
					w.Mu.Unlock()
					pl.drain += time.Since(t0)
					continue
				}
				if i%pl.window == pl.window-1 || rng.Intn(4*pl.window) == 0 {
					w.Broker.ReleaseHeld()
				}
			}
		}(lvl, pl, seeds[lvl])
	}
	<-doneCh
	<-doneCh
	w.Mu.Lock()
	w.Broker.AckPolicy = nil
	w.Store.Fail = nil
	w.Mu.Unlock()
	w.Broker.ReleaseHeld()
	status, report := ep.awaitOrDiagnose("history completes once the broker answers", d.AllClosed)
	final := status == ""
	if status == "wedged" {
		c.Violate("history-never-completes", "transfers did not complete after the broker answered", map[string]any{"report": report, "config": cfg, "trace_tail": w.TraceTail(40)})
		c.Spoiled()
	} else if status == "slow" {
		c.Inconclusive("history slow to complete")
		c.Spoiled()
	}
	if final {
		w.WaitIdle(sim.StepTimeout)
	}
	all := d.PubsSnapshot()
	a := analyzePubs(ep, all, final)
	reportPubs(c, ep, a, all, "C17")
	peak := inFlightBound(c, ep, all, eff)
	c.Count("identifiers_range_checked", idRanges(c, w))
	// wraps seen on the wire
	wraps := [3]int{}
	w.Mu.Lock()
	var lastID [3]uint16
	for _, cn := range w.Conns {
		pk, _, _ := wire.ParseStream(cn.Out, true)
		for _, p := range pk {
			if p.Type == wire.PUBLISH && p.QoS > 0 && !p.Dup {
				if p.ID&0x3fff < lastID[p.QoS]&0x3fff {
					wraps[p.QoS]++
				}
				lastID[p.QoS] = p.ID
			}
		}
	}
	w.Mu.Unlock()
	c.Count("identifier_wraps", wraps[1]+wraps[2])
	c.Count("store_save_failures_injected", storeFails)
	if !d.CloseAndWait() {
		c.Spoiled()
	}
	for lvl := 1; lvl <= 2; lvl++ {
		if plans[lvl] != nil {
			c.Count("errmax_refusals", plans[lvl].errmax)
			c.Logf("level %d: errmax %d tries %d drain %v", lvl, plans[lvl].errmax, plans[lvl].tries, plans[lvl].drain)
			c.Count("denials_interleaved", plans[lvl].denied)
		}
	}
	if wraps[1]+wraps[2] > 0 {
		c.Trigger(fmt.Sprintf("history|max1=%d|max2=%d|peak1=%d|peak2=%d|faults=%v", m1, m2, min(peak[1], 70), min(peak[2], 70), withFaults))
	}
	c.Sample(map[string]any{"scenario": "history", "config": cfg, "publishes": len(all), "wraps": wraps[1:], "peak_in_flight": peak[1:]})
}

// c17Unordered exercises the identifiers of subscribe and unsubscribe
// requests: slots, abandoned requests, and the counter meeting a request that
// is still open.
func c17Unordered(c *run.Ctx, k int, wrapCounter bool) {
	ep := newEpisode(c)
	w := ep.W
	defer w.Shutdown()
	w.DataCap = 96
	ep.F.Off = true
	if err := ep.Init(); err != nil {
		c.Violate("init-failed", err.Error(), nil)
		return
	}
	d := ep.D
	holdAll := true
	var dropID uint16
	w.Mu.Lock()
	w.Broker.AckPolicy = func(b *sim.Broker, cn *sim.Conn, p *wire.Packet, reply []byte) string {
		if dropID == 0 && len(p.Filters) > 0 && p.Filters[0] == "keep/open" {
			dropID = p.ID
			return "drop"
		}
		if holdAll && (reply[0]>>4 == wire.SUBACK || reply[0]>>4 == wire.UNSUBACK) {
			return "hold"
		}
		return ""
	}
	w.Mu.Unlock()
	d.StartReader()
	w.WaitIdle(sim.StepTimeout)

	type req struct {
		call *sim.Call
		quit chan struct{}
		sub  bool
	}
	var reqs []*req
	start := func(sub bool, filter string, quit chan struct{}) *req {
		r := &req{quit: quit, sub: sub}
		var q <-chan struct{}
		if quit != nil {
			q = quit
		}
		if sub {
			r.call = d.Go("Subscribe", func() error { return d.C.Subscribe(q, filter) }, filter)
		} else {
			r.call = d.Go("Unsubscribe", func() error { return d.C.Unsubscribe(q, filter) }, filter)
		}
		reqs = append(reqs, r)
		return r
	}
	waitCalls := func(rs []*req, what string) bool {
		for _, r := range rs {
			select {
			case <-r.call.Done:
			case <-time.After(sim.StepTimeout):
				wedged, report := w.Diagnose(1500 * time.Millisecond)
				if r.call.Returned() {
					continue
				}
				if wedged {
					c.Violate("request-never-returns", fmt.Sprintf("%s %v does not return (%s)", r.call.Method, r.call.Args, what), map[string]any{"report": report})
				} else {
					c.Inconclusive("request slow: " + what)
				}
				c.Spoiled()
				return false
			}
		}
		return true
	}
	written := func() int {
		n := 0
		for _, e := range w.Trace {
			if e.Kind == "broker.recv" && (strings.HasPrefix(e.Note, "SUBSCRIBE") || strings.HasPrefix(e.Note, "UNSUBSCRIBE")) {
				n++
			}
		}
		return n
	}

	// phase A: k requests open at once, then some abandoned, then as many new ones
	var open []*req
	for i := 0; i < k; i++ {
		var quit chan struct{}
		if i%3 == 0 {
			quit = make(chan struct{})
		}
		open = append(open, start(i%2 == 0, fmt.Sprintf("f/%d", len(reqs)), quit))
	}
	if !w.WaitUntil(2*sim.StepTimeout, func() bool { return written() >= k }) {
		c.Inconclusive("requests were not written in time")
		c.Spoiled()
		return
	}
	extraRefused := 0
	if k >= 512 {
		// beyond the slot limit: refused at once, nothing written
		var over []*req
		for i := 0; i < 3; i++ {
			over = append(over, start(i%2 == 0, fmt.Sprintf("f/%d", len(reqs)), nil))
		}
		if !waitCalls(over, "beyond the slot limit") {
			return
		}
		for _, r := range over {
			if !errors.Is(r.call.Err, mqtt.ErrMax) {
				c.Violate("slot-limit-not-errmax", fmt.Sprintf("%s beyond %d open requests got %v", r.call.Method, k, r.call.Err), nil)
			} else {
				extraRefused++
			}
		}
	}
	var abandoned []*req
	for _, r := range open {
		if r.quit != nil {
			close(r.quit)
			abandoned = append(abandoned, r)
		}
	}
	if !waitCalls(abandoned, "abandoned by quit") {
		return
	}
	var second []*req
	for range abandoned {
		second = append(second, start(c.Rng.Intn(2) == 0, fmt.Sprintf("f/%d", len(reqs)), nil))
	}
	w.WaitUntil(2*sim.StepTimeout, func() bool { return written() >= k+len(second) })
	// late answers, then everything
	w.Mu.Lock()
	holdAll = false
	w.Mu.Unlock()
	w.Broker.ReleaseHeld()
	var rest []*req
	for _, r := range reqs {
		if !r.call.Returned() {
			rest = append(rest, r)
		}
	}
	if !waitCalls(rest, "answers released") {
		return
	}

	// phase B: the counter comes round to a request that is still open
	var keep *req
	fillers := 0
	if wrapCounter {
		if c.Rng.Intn(2) == 0 {
			// the request that stays open takes the last identifier of its range
			w.Mu.Lock()
			last := -1
			for _, cn := range w.Conns {
				pk, _, _ := wire.ParseStream(cn.Out, true)
				for _, p := range pk {
					if p.Type == wire.SUBSCRIBE || p.Type == wire.UNSUBSCRIBE {
						last = int(p.ID & 0x1fff)
					}
				}
			}
			w.Mu.Unlock()
			for i, pad := 0, (0x1fff-(last+1))&0x1fff; i < pad; i++ {
				if err := d.C.Subscribe(nil, "pad/"+strconv.Itoa(i)); err != nil {
					c.Violate("request-fails-on-healthy-connection", fmt.Sprintf("padding request %d got %v", i, err), nil)
					break
				}
			}
			c.Count("long_open_requests_on_the_last_identifier_of_the_range", 1)
		}
		keep = start(true, "keep/open", nil)
		w.WaitUntil(sim.StepTimeout, func() bool { return dropID != 0 })
		fillers = 0x2000 + 8
		for i := 0; i < fillers; i++ {
			var err error
			if i%7 == 3 {
				err = d.C.Unsubscribe(nil, "g/"+strconv.Itoa(i))
			} else {
				err = d.C.Subscribe(nil, "g/"+strconv.Itoa(i))
			}
			if err != nil {
				c.Violate("request-fails-on-healthy-connection", fmt.Sprintf("request %d of the long run got %v", i, err), nil)
				break
			}
		}
	}

	// oracle: identifiers in range, and never shared by two requests in flight
	type span struct {
		id       uint16
		from, to int64
		what     string
	}
	var spans []span
	byFilter := map[string]*req{}
	for _, r := range reqs {
		byFilter[r.call.Args[0]] = r
	}
	w.Mu.Lock()
	now := w.Trace[len(w.Trace)-1].Seq + 1
	nreq := 0
	for _, cn := range w.Conns {
		pk, _, _ := wire.ParseStream(cn.Out, true)
		for _, p := range pk {
			if p.Type != wire.SUBSCRIBE && p.Type != wire.UNSUBSCRIBE || len(p.Filters) == 0 {
				continue
			}
			nreq++
			s := span{id: p.ID, from: cn.SeqOfOut(p.Offset + 1), what: fmt.Sprintf("%s %q", wire.TypeName(p.Type), p.Filters[0])}
			if r := byFilter[p.Filters[0]]; r != nil {
				s.to = now
				if r.call.Returned() {
					s.to = r.call.RetSeq
				}
			} else {
				// synchronous filler: in flight until its answer was delivered; the
				// end of the write is a lower bound that suffices against the open one
				s.to = cn.SeqOfOut(p.Offset + len(p.Raw))
			}
			spans = append(spans, s)
		}
	}
	w.Mu.Unlock()
	sort.Slice(spans, func(i, j int) bool {
		if spans[i].id != spans[j].id {
			return spans[i].id < spans[j].id
		}
		return spans[i].from < spans[j].from
	})
	shared := 0
	for i := 1; i < len(spans); i++ {
		a, b := spans[i-1], spans[i]
		if a.id != b.id {
			continue
		}
		shared++
		if b.from < a.to {
			c.Violate("identifier-shared-in-flight/"+strings.SplitN(b.what, " ", 2)[0], fmt.Sprintf("identifier %#04x was given to %s at #%d while %s was in flight (#%d–#%d)", b.id, b.what, b.from, a.what, a.from, a.to), nil)
			break
		}
	}
	c.Count("identifiers_range_checked", idRanges(c, w))
	c.Count("requests_on_wire", nreq)
	c.Count("identifiers_used_more_than_once", shared)
	c.Count("slot_limit_refusals", extraRefused)

	if keep != nil {
		// the late answer completes the open request
		if cn := w.CurConn(); cn != nil && dropID != 0 {
			cn.Send(wire.Suback(dropID, 0), "SUBACK (late)")
		}
		if !waitCalls([]*req{keep}, "late answer to the long-open request") {
			return
		}
		if keep.call.Err != nil {
			c.Violate("long-open-request-fails", fmt.Sprintf("the request that stayed open across %d others got %v", fillers, keep.call.Err), nil)
		}
	}
	if !d.CloseAndWait() {
		c.Spoiled()
	}
	c.Trigger(fmt.Sprintf("unordered|k=%d|abandoned=%d|counter-wrap=%v", k, len(abandoned), wrapCounter))
	c.Sample(map[string]any{"scenario": "subscribe/unsubscribe identifiers", "open_at_once": k, "abandoned": len(abandoned), "requests_on_wire": nreq, "identifiers_used_more_than_once": shared})
}

// c17Restart stops and adopts with the pending range across the wrap.
func c17Restart(c *run.Ctx) {
	wrapRestart(c, [][]int{{1}, {2}, {1, 2}}[c.Rng.Intn(3)], c.Rng.Intn(4), "C17")
}

// wrapRestart really completes publishes up to just before the 14-bit
// identifier wrap, lets a window of transfers go out across it (the first nrec
// exactly-once ones get their PUBREC), and restarts on every stop point whose
// pending range lies across the wrap.
func wrapRestart(c *run.Ctx, levels []int, nrec int, props ...string) {
	ep := newEpisode(c)
	w := ep.W
	defer w.Shutdown()
	w.DataCap = 48
	ep.F.Off = true
	ep.Cfg.AtLeastOnceMax, ep.Cfg.ExactlyOnceMax = -1, -1
	if err := ep.Init(); err != nil {
		c.Violate("init-failed", err.Error(), nil)
		return
	}
	d := ep.D
	d.StartReader()
	// really complete publishes up to just before the wrap
	var before [3]int
	for _, lvl := range levels {
		before[lvl] = 0x4000 - 1 - c.Rng.Intn(6)
		for i := 0; i < before[lvl]; i++ {
			if p := d.Publish(lvl, false, 1); p.Err != nil {
				w.WaitUntil(sim.StepTimeout, d.AllClosed)
				if p = d.PublishPub(p); p.Err != nil {
					c.Inconclusive("prelude publish failed: " + p.Err.Error())
					d.CloseAndWait()
					return
				}
			}
		}
	}
	if !w.WaitUntil(4*sim.StepTimeout, d.AllClosed) {
		c.Inconclusive("prelude did not complete")
		c.Spoiled()
		return
	}
	w.WaitIdle(sim.StepTimeout)
	// a window across the wrap: the broker goes silent at a drawn stage per message
	recs := 0
	lateRecs := c.Rng.Intn(2) == 0 // the PUBRECs arrive after all PUBLISH records were saved
	w.Mu.Lock()
	w.TakeSnaps = true
	w.DataCap = 1 << 12
	w.Broker.AckPolicy = func(b *sim.Broker, cn *sim.Conn, p *wire.Packet, reply []byte) string {
		switch reply[0] >> 4 {
		case wire.PUBREC:
			recs++
			if recs <= nrec && !lateRecs {
				return ""
			}
		}
		return "hold"
	}
	w.Mu.Unlock()
	for _, lvl := range levels {
		n := 0x4000 - before[lvl] + 1 + c.Rng.Intn(6)
		for i := 0; i < n; i++ {
			d.Publish(lvl, i%3 == 0, c.Rng.Intn(20))
			if lvl == 2 {
				w.WaitIdle(sim.StepTimeout)
			}
		}
	}
	w.WaitIdle(sim.StepTimeout)
	if lateRecs {
		sent := 0
		for _, h := range w.Broker.TakeHeld() {
			if h.Bytes[0]>>4 == wire.PUBREC && sent < nrec && h.Conn.Alive() {
				h.Conn.Send(h.Bytes, "PUBREC (after the later PUBLISH records were saved)")
				sent++
			}
		}
		w.WaitIdle(sim.StepTimeout)
	}
	all := d.PubsSnapshot()
	a := analyzePubs(ep, all, false)
	reportPubs(c, ep, a, all, props...)
	if !d.CloseAndWait() {
		c.Spoiled()
	}
	st := &adoptStats{shapes: map[string]bool{}}
	root := &lineage{owner: map[uint]int{}, ord: map[int]int{}}
	seen := map[string]bool{}
	var points []stopPoint
	w.Mu.Lock()
	snaps := append([]sim.Snap(nil), w.Snaps...)
	w.Mu.Unlock()
	for i := len(snaps) - 1; i >= 0; i-- {
		s := snaps[i]
		lo, hi := false, false
		for k := range s.Store {
			if isOutboundKey(k) {
				if k&0x3fff >= 0x3ff0 {
					hi = true
				}
				if k&0x3fff < 0x10 {
					lo = true
				}
			}
		}
		if !(lo && hi) {
			continue
		}
		key := fmt.Sprintf("%x|%d", sim.Keys(s.Store), len(s.Broker.AwaitRel))
		if seen[key] {
			continue
		}
		seen[key] = true
		points = append(points, stopPoint{snap: s, lin: lineageFrom(root, a, s.Seq), desc: fmt.Sprintf("stop at #%d (%s), pending range across the wrap", s.Seq, s.Note)})
	}
	if len(points) > 10 {
		points = points[:10]
	}
	marker := ep.Marker
	var walk func(sp stopPoint, gen int)
	walk = func(sp stopPoint, gen int) {
		for _, n := range adoptAndCheck(c, sp, gen, gen < 2 && c.Rng.Intn(2) == 0, st, &marker) {
			walk(n, gen+1)
		}
	}
	for _, sp := range points {
		walk(sp, 1)
	}
	c.Count("restart_stop_points_across_wrap", len(points))
	c.Count("restart_adoptions", st.adoptions)
	for s := range st.shapes {
		c.Trigger("restart|" + s)
	}
	c.Sample(map[string]any{"scenario": "restart with the pending range across the wrap", "stop_points": len(points), "adoptions": st.adoptions, "levels": levels})
}

func init() {
	run.Register(&run.Prop{
		ID:    "C17",
		Level: "exploration",
		Cases: func(tier string) int {
			if tier == "thorough" {
				return 640
			}
			return 64
		},
		ChunkSize:    2,
		ChildTimeout: 600,
		Parallel:     10,
		Rule:         "eight scenarios by case number. (windows) every pair (AtLeastOnceMax, ExactlyOnceMax) from {0,1,2,3,7,16383,16384,-1,16385,100000}^2 is drawn in turn: both windows are filled against a silent broker, exactly the normalised maximum must be accepted, the next two publishes must return ErrMax at once (goroutine + structural wedge detection) without a Persistence operation, the other level stays independent; after the broker answers, capacity is back and a refilled window hits the same limit. (concurrent) with one slot of a window of 1-3 free, 2-6 goroutines publish at once while the first of them is held inside Persistence.Save: exactly one is accepted, the others return ErrMax, none blocks. (history) 16,384+N publishes per level (thorough: up to 70,000, four wraps) from one goroutine per level while the broker withholds and releases acknowledgements so that the in-flight window keeps changing (1..64, or the maximum itself), optionally with injected Save failures and denied publishes in between; every ErrMax must coincide with a full window. (unordered) k (quick 40-512, thorough 512) subscribe/unsubscribe requests open at once, requests beyond the slot limit, a third abandoned by quit and replaced, answers released late; then one request kept open while 8,200 others run so that the identifier counter meets it; and requests canceled during a pending reconnect, others abandoned with the answer owed, new ones after them (no identifier goes out again while the broker owes an answer under it). (full release window, one case) a session is stopped with all 16,384 exactly-once identifiers at the PUBREL stage, the oldest somewhere inside the identifier space, and adopted: everything completes and new publishes follow. (parked) a Subscribe takes its identifier and waits for the write lock behind a writer stuck in Write while the connection goes; it is written on the next connection, and no later request goes out under its identifier while the broker owes the answer. (other maximum) a session with 1-3 transfers per stage pending is adopted with every maximum around the pending counts: refused at once when a level holds more, adopted otherwise, never blocking. (restart) C02's stop-point enumeration restricted to stop points whose pending range lies across the 14-bit wrap, two generations. Oracles: identifiers on the wire inside the range of their kind; an identifier is given to another message only after the record of the previous holder was removed (store and wire trace); no two subscribe/unsubscribe requests in flight share an identifier (wire write to call return); accepted minus finally acknowledged never exceeds the normalised maximum (final acknowledgements counted when handed to the client's Read). Non-trivial: a limit probe, an identifier wrap, or a counter round; distinct by configuration and scenario parameters.",
		Assumptions: []string{
			"in-flight is counted from API returns and bytes handed to Read, which never exceeds the client's own count",
			"the broker answers in order per acknowledgement type; the long-open subscribe is answered by hand",
		},
		Run: func(c *run.Ctx) {
			thorough := c.Tier == "thorough"
			switch c.Case % 4 {
			case 0:
				i := c.Case / 4
				if c.Case == 8 {
					c17FullReleaseWindow(c)
					return
				}
				if i%4 == 3 {
					c17Concurrent(c, 1+c.Rng.Intn(2), 1+c.Rng.Intn(3), 2+c.Rng.Intn(5))
					return
				}
				m1 := c17Maxes[i%len(c17Maxes)]
				m2 := c17Maxes[(i/len(c17Maxes)+i)%len(c17Maxes)]
				if !thorough && effMax(m1) > 100 && effMax(m2) > 100 && i%3 != 0 {
					// two full 16,384 windows are kept for a third of the quick cases
					m2 = c17Maxes[c.Rng.Intn(5)]
				}
				c17Windows(c, m1, m2)
			case 1:
				n := 0x4000 + 200 + c.Rng.Intn(2000)
				if thorough && c.Case%16 == 1 {
					n = 70000
				}
				big := []int{16384, -1, 16385, 300, 64}
				m1, m2 := big[c.Rng.Intn(len(big))], big[c.Rng.Intn(len(big))]
				if c.Rng.Intn(3) == 0 {
					m1 = []int{1, 2, 3, 7}[c.Rng.Intn(4)]
				}
				if c.Rng.Intn(3) == 0 {
					m2 = []int{1, 2, 3, 7}[c.Rng.Intn(4)]
				}
				c17History(c, n, m1, m2, c.Rng.Intn(2) == 0)
			case 2:
				if c.Case%16 == 10 {
					c17ParkedAcrossLoss(c)
					return
				}
				if c.Case%8 == 6 {
					// identifiers across a canceled and an abandoned request around a reconnect
					c11PendingConnect(c, 3)
					return
				}
				k := []int{40, 100, 512}[c.Rng.Intn(3)]
				if thorough {
					k = 512
				}
				c17Unordered(c, k, c.Case%8 == 2 || thorough)
			default:
				if c.Case/4%4 == 3 {
					c17AdoptOtherMax(c)
					return
				}
				c17Restart(c)
			}
		},
	})
}

// c17Concurrent has several goroutines publish on one level at once while a
// single slot is free and the first of them sits inside Persistence.Save:
// whichever order they take, one is accepted and the others get ErrMax.
func c17Concurrent(c *run.Ctx, level, max, k int) {
	ep := newEpisode(c)
	w := ep.W
	defer w.Shutdown()
	w.DataCap = 64
	ep.F.Off = true
	ep.Cfg.AtLeastOnceMax, ep.Cfg.ExactlyOnceMax = 8, 8
	if level == 1 {
		ep.Cfg.AtLeastOnceMax = max
	} else {
		ep.Cfg.ExactlyOnceMax = max
	}
	cfg := fmt.Sprintf("AtLeastOnceMax=%d ExactlyOnceMax=%d", ep.Cfg.AtLeastOnceMax, ep.Cfg.ExactlyOnceMax)
	if err := ep.Init(); err != nil {
		c.Violate("config-refused", "InitSession refused "+cfg+": "+err.Error(), nil)
		return
	}
	var armed atomic.Bool
	release := make(chan struct{})
	entered := make(chan struct{}, 64)
	w.Store.PreCopy = func() {
		if armed.CompareAndSwap(true, false) {
			entered <- struct{}{}
			<-release
		}
	}
	w.Mu.Lock()
	w.Broker.AckPolicy = func(b *sim.Broker, cn *sim.Conn, p *wire.Packet, reply []byte) string { return "hold" }
	w.Mu.Unlock()
	d := ep.D
	d.StartReader()
	w.WaitIdle(sim.StepTimeout)
	for i := 0; i < max-1; i++ {
		if p := d.Publish(level, false, 2); p.Err != nil {
			c.Violate("refused-below-maximum", fmt.Sprintf("level %d: publish %d refused with %q while nothing was acknowledged (%s)", level, i+1, p.Err, cfg), nil)
			d.CloseAndWait()
			return
		}
	}
	armed.Store(true)
	done := make(chan *sim.Pub, k)
	for i := 0; i < k; i++ {
		go func() { done <- d.Publish(level, false, 2) }()
	}
	select {
	case <-entered:
	case <-time.After(sim.StepTimeout):
		c.Inconclusive("no publisher reached Persistence.Save")
		c.Spoiled()
		close(release)
		return
	}
	// the others are at the sequence lock, or on their way; a little while
	// makes the first case the rule, and either is fine
	w.WaitUntil(30*time.Millisecond, func() bool { return false })
	close(release)
	accepted, refused := 0, 0
	for i := 0; i < k; i++ {
		var p *sim.Pub
		select {
		case p = <-done:
		case <-time.After(sim.StepTimeout):
			wedged, report := w.Diagnose(1500 * time.Millisecond)
			if wedged {
				c.Violate("publish-at-the-limit-never-returns", fmt.Sprintf("level %d: %d goroutines published at once with one slot free (%s); %d returned, the rest never does", level, k, cfg, i), map[string]any{"report": report, "trace_tail": w.TraceTail(60)})
			} else {
				c.Inconclusive("concurrent publishers slow: " + firstLine(report))
			}
			c.Spoiled()
			return
		}
		switch {
		case p.Err == nil:
			accepted++
		case errors.Is(p.Err, mqtt.ErrMax):
			refused++
		default:
			c.Violate("refused-with-other-error", fmt.Sprintf("level %d: concurrent publish at the limit returned %q (%s)", level, p.Err, cfg), nil)
		}
	}
	if accepted != 1 || refused != k-1 {
		c.Violate("accepted-beyond-maximum", fmt.Sprintf("level %d: %d goroutines published at once with one slot free (%s): %d accepted, %d refused with ErrMax", level, k, cfg, accepted, refused), map[string]any{"trace_tail": w.TraceTail(60)})
	}
	c.Count("concurrent_publishers_at_the_limit", k)
	w.Mu.Lock()
	w.Broker.AckPolicy = nil
	w.Mu.Unlock()
	w.Broker.ReleaseHeld()
	final := w.WaitUntil(2*sim.StepTimeout, d.AllClosed)
	w.WaitIdle(sim.StepTimeout)
	all := d.PubsSnapshot()
	a := analyzePubs(ep, all, final)
	reportPubs(c, ep, a, all, "C17")
	eff := [3]int{0, effMax(ep.Cfg.AtLeastOnceMax), effMax(ep.Cfg.ExactlyOnceMax)}
	inFlightBound(c, ep, all, eff)
	if !d.CloseAndWait() {
		c.Spoiled()
	}
	c.Trigger(fmt.Sprintf("concurrent|level=%d|max=%d|k=%d", level, max, k))
	c.Sample(map[string]any{"scenario": "concurrent publishers at the limit", "config": cfg, "publishers": k, "accepted": accepted, "refused": refused})
}

// c17AdoptOtherMax restarts a session that has transfers of both stages
// pending with every maximum around the pending counts: AdoptSession refuses
// (an error, at once) when a level holds more than the new maximum and adopts
// otherwise; it never blocks.
func c17AdoptOtherMax(c *run.Ctx) {
	n1, nr, n2 := 1+c.Rng.Intn(3), 1+c.Rng.Intn(3), 1+c.Rng.Intn(3)
	base := c16Base(c, n1, nr, n2, 0, false)
	if base == nil {
		return
	}
	pend1, pend2 := 0, 0
	for k := range base.content {
		switch {
		case k >= 0x8000 && k < 0xc000:
			pend1++
		case k >= 0xc000 && k <= 0xffff:
			pend2++
		}
	}
	try := func(m1, m2 int) bool {
		w := sim.NewWorld(c.Rng.Int63())
		defer w.Shutdown()
		sim.InstallHooks(w)
		w.Store.Plant(base.content)
		cfg := mqtt.Config{Dialer: w.Dialer(), PauseTimeout: time.Hour, AtLeastOnceMax: m1, ExactlyOnceMax: m2}
		type res struct {
			cl    *mqtt.Client
			fatal error
		}
		done := make(chan res, 1)
		go func() {
			cl, _, fatal := mqtt.AdoptSession(w.Store, &cfg)
			done <- res{cl, fatal}
		}()
		label := fmt.Sprintf("AdoptSession with AtLeastOnceMax=%d ExactlyOnceMax=%d on a session with %d at-least-once transfers and %d exactly-once ones (%d of them at the PUBREL stage) pending", m1, m2, pend1, pend2, nr)
		var r res
		select {
		case r = <-done:
		case <-time.After(sim.StepTimeout):
			s1 := strings.Join(sim.MqttStacks(), "\n")
			starved := sim.Starved(1500 * time.Millisecond)
			s2 := strings.Join(sim.MqttStacks(), "\n")
			select {
			case r = <-done:
			default:
				if !starved && s1 == s2 && s1 != "" {
					c.Violate("adoption-blocks", label+" neither adopts nor refuses", map[string]any{"stacks": s2})
				} else {
					c.Inconclusive("AdoptSession slow")
				}
				c.Spoiled()
				return false
			}
		}
		over := pend1 > effMax(m1) || pend2 > effMax(m2)
		switch {
		case over && r.fatal == nil:
			c.Violate("accepted-beyond-maximum", label+" was adopted", nil)
		case !over && r.fatal != nil:
			c.Violate("refused-below-maximum", label+" was refused: "+r.fatal.Error(), nil)
		}
		if r.cl != nil {
			r.cl.Close()
			for i := 0; i < 3; i++ {
				if _, _, err := r.cl.ReadSlices(); errors.Is(err, mqtt.ErrClosed) {
					break
				}
			}
		}
		return true
	}
	n := 0
	for _, m2 := range []int{0, 1, nr, n2, max(nr, n2), pend2 - 1, pend2, pend2 + 1, -1, 16385} {
		if m2 < -1 {
			continue
		}
		n++
		if !try(-1, m2) {
			return
		}
	}
	for _, m1 := range []int{0, pend1 - 1, pend1, pend1 + 1} {
		n++
		if !try(m1, -1) {
			return
		}
	}
	c.Count("adoptions_with_other_maxima", n)
	c.Trigger(fmt.Sprintf("adopt-other-max|pending=%d+%d(%d)", pend1, pend2, nr))
}

// c17ParkedAcrossLoss has a Subscribe take its identifier and then wait for
// the write lock (another writer is stuck inside Write) while the connection
// goes. The request is written on the next connection all the same; as long as
// the broker owes the answer, no other request may go out under its identifier.
func c17ParkedAcrossLoss(c *run.Ctx) {
	ep := newEpisode(c)
	w := ep.W
	defer w.Shutdown()
	ep.F.Off = true
	if err := ep.Init(); err != nil {
		c.Violate("init-failed", err.Error(), nil)
		return
	}
	armed := true
	w.Mu.Lock()
	w.WritePlan = func(cn *sim.Conn, p []byte) sim.WriteDecision {
		if armed && len(p) > 0 && p[0]>>4 == wire.PUBLISH && p[0]&6 == 0 {
			armed = false
			return sim.WriteDecision{Accept: 1 + w.Rng.Intn(max(len(p)-1, 1)), GateAfter: "writer"}
		}
		return sim.WriteDecision{Accept: -1}
	}
	w.Broker.AckPolicy = func(b *sim.Broker, cn *sim.Conn, p *wire.Packet, reply []byte) string {
		if p.Type == wire.SUBSCRIBE || p.Type == wire.UNSUBSCRIBE {
			return "hold"
		}
		return ""
	}
	w.Mu.Unlock()
	d := ep.D
	d.StartReader()
	if !w.WaitUntil(sim.StepTimeout, func() bool { return w.PointCountLocked("connect.resent") > 0 && w.ReaderQuietLocked() }) {
		c.Inconclusive("no connection")
		c.Spoiled()
		return
	}
	cn := w.CurConn()
	// some requests first, so that the counter is not at its start (or not)
	warm := c.Rng.Intn(3)
	var calls []*sim.Call
	for i := 0; i < warm; i++ {
		i := i
		calls = append(calls, d.Go("Subscribe", func() error { return d.C.Subscribe(nil, fmt.Sprint("warm/", i)) }))
	}
	w.WaitUntil(sim.StepTimeout, func() bool { return len(w.Broker.Held) >= warm })
	writer := d.Go("Publish", func() error { return d.C.Publish(nil, []byte("stuck in Write"), "w") })
	if !w.WaitGateWaiting("writer", 1, sim.StepTimeout) {
		c.Inconclusive("the writer never reached its gate")
		c.Spoiled()
		w.Open("writer")
		return
	}
	parked := d.Go("Subscribe", func() error { return d.C.Subscribe(nil, "parked/across/the/loss") })
	// it takes its identifier and queues for the write lock; nothing tells when,
	// so it gets a little while (either order of things is legal)
	w.WaitUntil(30*time.Millisecond, func() bool { return false })
	cn.EndInbound(-1, io.EOF)
	w.WaitUntil(sim.StepTimeout, func() bool { return cn.Closed() })
	w.Open("writer")
	if !w.WaitUntil(sim.StepTimeout, func() bool {
		return parked.Returned() && writer.Returned() && len(w.Conns) >= 2 && w.ReaderQuietLocked()
	}) {
		wedged, report := w.Diagnose(1500 * time.Millisecond)
		if wedged {
			c.Violate("request-never-returns", "a Subscribe that waited for the write lock across a connection loss never returned", map[string]any{"report": report, "trace_tail": w.TraceTail(60)})
		} else {
			c.Inconclusive("parked request slow")
		}
		c.Spoiled()
		return
	}
	// more requests on the new connection while the broker owes its answers
	for i := 0; i < 3+c.Rng.Intn(4); i++ {
		i := i
		calls = append(calls, d.Go("Subscribe", func() error { return d.C.Subscribe(nil, fmt.Sprint("after/", i)) }))
	}
	w.WaitUntil(300*time.Millisecond, func() bool { return false })
	// identifiers on the wire of the connections: none twice while unanswered
	// (nothing was answered at all)
	w.Mu.Lock()
	type use struct {
		conn   int
		filter string
	}
	seen := map[uint16]use{}
	for _, x := range w.Conns[1:] {
		pk, _, _ := wire.ParseStream(x.Out, true)
		for _, q := range pk {
			if q.Type != wire.SUBSCRIBE || len(q.Filters) == 0 {
				continue
			}
			if prev, dup := seen[q.ID]; dup && prev.filter != q.Filters[0] {
				w.Mu.Unlock()
				c.Violate("identifier-shared-in-flight/SUBSCRIBE", fmt.Sprintf("identifier %#04x went out for %q on connection %d while the broker still owed the answer to %q (connection %d), a request that had waited for the write lock across the connection loss", q.ID, q.Filters[0], x.Idx, prev.filter, prev.conn), map[string]any{"trace_tail": w.TraceTail(60)})
				w.Mu.Lock()
			}
			seen[q.ID] = use{x.Idx, q.Filters[0]}
		}
	}
	parkedWritten := false
	for _, u := range seen {
		if u.filter == "parked/across/the/loss" {
			parkedWritten = true
		}
	}
	w.Mu.Unlock()
	if parkedWritten {
		c.Count("requests_written_after_waiting_across_a_loss", 1)
	}
	c.Trigger(fmt.Sprintf("parked-across-loss|warm=%d|written=%v", warm, parkedWritten))
	w.Broker.ReleaseHeld()
	for _, cl := range calls {
		w.WaitUntil(sim.StepTimeout, func() bool { return cl.Returned() })
	}
	if !d.CloseAndWait() {
		c.Spoiled()
	}
}

// c17FullReleaseWindow stops a session whose whole exactly-once window (all
// 16,384 identifiers, starting somewhere inside the sequence) is at the PUBREL
// stage and adopts it: the window is full, not empty.
func c17FullReleaseWindow(c *run.Ctx) {
	base := c16Base(c, 0, 0x4000, 0, 0, true)
	if base == nil {
		return
	}
	rel := 0
	for k, v := range base.content {
		if k >= 0xc000 && k <= 0xffff {
			if pk, err := wire.Decode(stripTrailer(v), true); err == nil && pk.Type == wire.PUBREL {
				rel++
			}
		}
	}
	c.Count("release_records_at_the_stop", rel)
	if rel != 0x4000 {
		c.Inconclusive(fmt.Sprintf("the window holds %d PUBREL records, not 16384", rel))
		return
	}
	stats := &c16Stats{}
	c16Adopt(c, base, false, false, stats)
	c.Trigger("full-release-window")
}
