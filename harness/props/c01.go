package props

import (
	"fmt"
	"runtime"
	"sort"
	"strings"
	"sync/atomic"
	"time"

	"verif/run"
	"verif/sim"
)

// pubWorkload drives persisted publishes under faults and returns the
// analysis. Mode: "seq" single publisher, "conc" concurrent publishers.
type pubParams struct {
	NPub      int
	Levels    []int // allowed levels
	Conc      int   // publisher goroutines
	Budget    int
	Yield     bool // random yields at hook points
	SettleP   float64
	BigP      float64
	RestartAt int     // publish index at which to close and adopt (0 = never)
	Snaps     bool    // take stop-point snapshots
	Prelude   [3]int  // completed publishes per level before the episode (wrap positioning)
	NoClose   bool    // leave the client open (the caller closes)
	Restarts  int     // stops with AdoptSession on the same Persistence after the publish phase
	HoldP     float64 // when non-zero: probability that the broker withholds an acknowledgement
	Volatile  bool    // VolatileSession: the library's own in-memory store
	SlowSaves bool    // scheduling noise at the entry of Persistence.Save
	// CloseMidPublish: a publish sits between its Save and its write when the
	// client gets closed (before each restart, or at the end of the episode)
	CloseMidPublish bool
	// CleanSession: the configuration asks for a clean session, which holds
	// for the first connection only (episodes without restart)
	CleanSession bool
	// SlowLink: every packet takes longer than one PauseTimeout to go out,
	// with progress all along (no fault)
	SlowLink bool
	// PlainNoise: a goroutine keeps issuing requests that take no sequence
	// lock (Publish at most once, Ping) all through the publisher phase
	PlainNoise bool
}

func sizeOf(c *run.Ctx, bigP float64) int {
	if c.Rng.Float64() < bigP {
		return []int{300, 5000, 70000, 140000}[c.Rng.Intn(4)]
	}
	return []int{0, 1, 9, 100, 115, 116, 127, 128, 129}[c.Rng.Intn(9)]
}

func faultMix(c *run.Ctx, f *Faults, budget int) {
	f.Budget = budget
	r := c.Rng
	pick := func(p float64) float64 {
		if r.Intn(2) == 0 {
			return 0
		}
		return p * r.Float64()
	}
	f.PShortWrite = pick(0.3)
	f.PWriteFail = pick(0.15)
	f.PBlackhole = pick(0.05)
	f.PFragment = pick(0.5)
	f.PReadStall = pick(0.2)
	f.PReadFail = pick(0.1)
	f.PDialFail = pick(0.3)
	f.PRefuse = pick(0.2)
	f.PHold = pick(0.3)
	f.PAckLost = pick(0.15)
	f.PStoreFail = pick(0.06)
}

func runPubWorkload(c *run.Ctx, pp pubParams) (*Episode, *pubAnalysis, []*sim.Pub) {
	ep := newEpisode(c)
	defer ep.W.Shutdown()
	faultMix(c, ep.F, pp.Budget)
	ep.F.SlowLink = pp.SlowLink
	if pp.HoldP != 0 {
		ep.F.PHold = pp.HoldP
	}
	ep.Cfg.AtLeastOnceMax = []int{1, 2, 3, 8, 16384}[c.Rng.Intn(5)]
	ep.Cfg.ExactlyOnceMax = []int{1, 2, 3, 8, 16384}[c.Rng.Intn(5)]
	if pp.Yield {
		ep.W.PointPlan = func(w *sim.World, point string, n int) sim.PointAction {
			switch w.Rng.Intn(6) {
			case 0:
				return sim.PointAction{Yield: true}
			case 1:
				return sim.PointAction{Sleep: 50_000} // 50 µs
			}
			return sim.PointAction{}
		}
	}
	if !pp.Snaps && c.Rng.Intn(3) == 0 {
		ep.W.Store.AliasLoad = true
	}
	if pp.SlowSaves {
		var tick atomic.Int64
		ep.W.Store.PreCopy = func() {
			switch tick.Add(1) % 4 {
			case 0:
				runtime.Gosched()
			case 1:
				time.Sleep(40 * time.Microsecond)
			case 2:
				time.Sleep(300 * time.Microsecond)
			}
		}
	}
	if pp.CleanSession && pp.Restarts == 0 {
		ep.Cfg.CleanSession = true
		c.Count("episodes_with_clean_session_configured", 1)
	}
	if pp.Volatile {
		pp.Restarts = 0
		if err := ep.InitVolatile(); err != nil {
			c.Violate("init-failed", "VolatileSession: "+err.Error(), nil)
			return ep, nil, nil
		}
	} else if err := ep.Init(); err != nil {
		c.Violate("init-failed", "InitSession: "+err.Error(), nil)
		return ep, nil, nil
	}
	ep.D.StartReader()
	if pp.Prelude[1]+pp.Prelude[2] > 0 {
		ep.W.Mu.Lock()
		ep.F.Off = true
		ep.W.DataCap = 48
		ep.W.Mu.Unlock()
		for lvl := 1; lvl <= 2; lvl++ {
			for i := 0; i < pp.Prelude[lvl]; i++ {
				if p := ep.D.Publish(lvl, false, 2); p.Err != nil {
					ep.W.WaitUntil(sim.StepTimeout, ep.D.AllClosed)
					if p = ep.D.PublishPub(p); p.Err != nil {
						c.Violate("prelude-failed", fmt.Sprintf("prelude publish %d level %d: %v", i, lvl, p.Err), nil)
						return ep, nil, nil
					}
				}
			}
		}
		if !ep.W.WaitUntil(4*sim.StepTimeout, ep.D.AllClosed) {
			c.Inconclusive("prelude did not complete")
			c.Spoiled()
			return ep, nil, nil
		}
		ep.W.Mu.Lock()
		ep.F.Off = false
		ep.W.DataCap = 1 << 16
		ep.W.Mu.Unlock()
	}
	if pp.Snaps {
		ep.W.Mu.Lock()
		ep.W.TakeSnaps = true
		ep.W.Mu.Unlock()
	}

	var all []*sim.Pub
	collect := func() {
		all = append(all, ep.D.PubsSnapshot()...)
	}
	publishers := pp.Conc
	if publishers < 1 {
		publishers = 1
	}
	per := pp.NPub / publishers
	if per < 1 {
		per = 1
	}
	// pre-draw the plan so that goroutines do not share the PRNG
	type step struct {
		level, size int
		retain      bool
		settle      bool
		release     bool
	}
	plans := make([][]step, publishers)
	for g := range plans {
		for i := 0; i < per; i++ {
			plans[g] = append(plans[g], step{
				level:   pp.Levels[c.Rng.Intn(len(pp.Levels))],
				size:    sizeOf(c, pp.BigP),
				retain:  c.Rng.Intn(4) == 0,
				settle:  c.Rng.Float64() < pp.SettleP,
				release: c.Rng.Intn(5) == 0,
			})
		}
	}
	var noiseStop atomic.Bool
	noiseDone := make(chan struct{})
	if pp.PlainNoise {
		go func() {
			defer close(noiseDone)
			for i := 0; !noiseStop.Load(); i++ {
				if i%3 == 2 {
					ep.D.C.Ping(nil)
				} else {
					ep.D.C.Publish(nil, []byte("noise"), "noise/0")
				}
				time.Sleep(200 * time.Microsecond)
			}
		}()
	} else {
		close(noiseDone)
	}
	done := make(chan struct{}, publishers)
	for g := 0; g < publishers; g++ {
		go func(g int) {
			defer func() { done <- struct{}{} }()
			for _, s := range plans[g] {
				if pp.CleanSession {
					// an application that takes note of a new session clears the flag
					ep.D.C.InNewSession.Store(false)
				}
				ep.D.Publish(s.level, s.retain, s.size)
				if s.release {
					ep.W.Broker.ReleaseHeld()
				}
				if s.settle && publishers == 1 {
					ep.W.WaitIdle(sim.StepTimeout)
				}
			}
		}(g)
	}
	for g := 0; g < publishers; g++ {
		<-done
	}
	noiseStop.Store(true)
	select {
	case <-noiseDone:
	case <-time.After(sim.StepTimeout):
		// (a request waiting for a connection that never comes is C10's and
		// C11's subject; here it only must not hold up the episode)
	}

	// closeMidPublish parks a publisher right behind its Save, closes the client
	// and lets the publisher go on: whatever the call returns must agree with
	// what stays in the Persistence.
	closeMidPublish := func() {
		w := ep.W
		w.Mu.Lock()
		ep.F.Armed = false
		prev := w.PointPlan
		armed := true
		w.PointPlan = func(w *sim.World, point string, n int) sim.PointAction {
			if armed && point == "submit.saved" {
				armed = false
				return sim.PointAction{Park: "midpub"}
			}
			if prev != nil {
				return prev(w, point, n)
			}
			return sim.PointAction{}
		}
		w.Mu.Unlock()
		ret := make(chan struct{})
		go func() {
			ep.D.Publish(pp.Levels[0], false, 3)
			close(ret)
		}()
		returned := func() bool {
			select {
			case <-ret:
				return true
			default:
				return false
			}
		}
		parked := w.WaitUntil(sim.StepTimeout, func() bool { return w.Gate("midpub").Waiting >= 1 || returned() }) && !returned()
		closed := make(chan struct{})
		if parked {
			c.Count("clients_closed_between_save_and_write_of_a_publish", 1)
			byClose := c.Rng.Intn(2) == 0
			go func() {
				// (a reconnect under way waits for the publisher's sequence lock
				// with the connection lock in hand: Close returns once that is over)
				if byClose {
					ep.D.C.Close()
				} else {
					ep.D.C.Disconnect(nil)
				}
				close(closed)
			}()
			// let it take effect when nothing stands in its way
			select {
			case <-closed:
			case <-time.After(20 * time.Millisecond):
			}
		} else {
			close(closed)
		}
		w.Mu.Lock()
		armed = false
		w.Mu.Unlock()
		w.Open("midpub")
		select {
		case <-ret:
		case <-time.After(sim.StepTimeout):
			wedged, report := w.Diagnose(1500 * time.Millisecond)
			if wedged {
				c.Violate("publish-never-returns", "a persisted publish that sat between its Save and its write when the client was closed never returned", map[string]any{"report": report, "trace_tail": w.TraceTail(40)})
			} else {
				c.Inconclusive("publish slow around Close")
			}
			c.Spoiled()
		}
		select {
		case <-closed:
		case <-time.After(sim.StepTimeout):
			wedged, report := w.Diagnose(1500 * time.Millisecond)
			if wedged {
				c.Violate("close-stuck", "Close or Disconnect issued while a publish sat between its Save and its write never returned", map[string]any{"report": report, "trace_tail": w.TraceTail(40)})
			} else {
				c.Inconclusive("Close slow")
			}
			c.Spoiled()
		}
		w.ResetGate("midpub")
		w.Mu.Lock()
		w.PointPlan = prev
		ep.F.Armed = true
		w.Mu.Unlock()
	}

	// stop and restart on the same Persistence, then publish some more
	for r := 0; r < pp.Restarts; r++ {
		if pp.CloseMidPublish {
			closeMidPublish()
		}
		if !ep.D.CloseAndWait() {
			c.Violate("close-stuck", "Close did not end the client at a stop", map[string]any{"trace_tail": ep.W.TraceTail(40)})
			c.Spoiled()
			return ep, nil, nil
		}
		if !ep.D.WatchersDone(sim.StepTimeout) {
			c.Violate("exchange-without-errclosed", "an exchange of the closed client neither closed nor received ErrClosed", map[string]any{"trace_tail": ep.W.TraceTail(40)})
			c.Spoiled()
			return ep, nil, nil
		}
		collect()
		ep.W.Log(sim.Event{Kind: "adopt", N: ep.D.Gen + 1})
		ep.W.Mu.Lock()
		ep.F.Armed = false // a Persistence error during adoption is a legitimate fatal
		ep.W.Mu.Unlock()
		warn, fatal := ep.Adopt()
		ep.W.Mu.Lock()
		ep.F.Armed = true
		ep.W.Mu.Unlock()
		if fatal != nil {
			c.Violate("adopt-fatal", "AdoptSession failed at a stop: "+fatal.Error(), map[string]any{"trace_tail": ep.W.TraceTail(40), "faults": ep.F.Fired})
			return ep, nil, nil
		}
		for _, e := range warn {
			c.Violate("adopt-warns", "AdoptSession warned on an undamaged store: "+e.Error(), map[string]any{"trace_tail": ep.W.TraceTail(40)})
		}
		ep.D.StartReader()
		for i := 0; i < 1+c.Rng.Intn(4); i++ {
			ep.D.Publish(pp.Levels[c.Rng.Intn(len(pp.Levels))], false, sizeOf(c, 0))
			if c.Rng.Intn(2) == 0 {
				ep.W.WaitIdle(sim.StepTimeout)
			}
		}
	}

	if pp.CloseMidPublish && pp.Restarts == 0 {
		// the episode ends with the closed client; what is pending stays pending
		closeMidPublish()
		if !ep.D.CloseAndWait() {
			c.Violate("close-stuck", "Close did not end the client", map[string]any{"trace_tail": ep.W.TraceTail(40)})
			c.Spoiled()
			return ep, nil, nil
		}
		ep.D.WatchersDone(sim.StepTimeout)
		collect()
		return ep, analyzePubs(ep, all, false), all
	}

	// faults stop; run to idle
	ep.F.Heal(ep.W)
	ep.W.Broker.ReleaseHeld()
	allDone := func() bool {
		if !ep.D.AllClosed() {
			return false
		}
		if pp.Restarts > 0 {
			// transfers of an earlier generation have no exchange to watch
			for k := range ep.W.Store.CurrentLocked() {
				if k >= 0x8000 && k <= 0xffff {
					return false
				}
			}
		}
		return true
	}
	status, report := ep.awaitOrDiagnose("all exchanges closed after faults stopped", allDone)
	final := true
	switch status {
	case "wedged":
		c.Violate("no-progress-after-faults-stopped", "client made no further progress with accepted messages outstanding", map[string]any{"report": report, "trace_tail": ep.W.TraceTail(60), "faults": ep.F.Fired})
		c.Spoiled()
		final = false
	case "slow":
		c.Inconclusive("episode did not reach idle within the watchdog: " + firstLine(report))
		c.Spoiled()
		final = false
	}
	if final {
		ep.W.WaitIdle(sim.StepTimeout)
	}
	collect()
	var a *pubAnalysis
	if pp.Volatile {
		a = analyzeVolatile(ep, all, final)
	} else {
		a = analyzePubs(ep, all, final)
	}
	if !pp.NoClose {
		if !ep.D.CloseAndWait() {
			c.Spoiled()
		} else if !pp.Volatile && !ep.D.WatchersDone(sim.StepTimeout) {
			c.Spoiled() // a watcher is still around: the process state is not clean
		}
	}
	return ep, a, all
}

func firstLine(s string) string {
	if i := strings.IndexByte(s, '\n'); i >= 0 {
		return s[:i]
	}
	return s
}

// reportPubs files the violations of the selected properties and the
// coverage counters.
func reportPubs(c *run.Ctx, ep *Episode, a *pubAnalysis, all []*sim.Pub, props ...string) {
	if a == nil {
		return
	}
	want := map[string]bool{}
	for _, p := range props {
		want[p] = true
	}
	seen := map[string]bool{}
	for _, v := range a.viol {
		if !want[v.prop] {
			continue
		}
		if seen[v.sig] {
			continue
		}
		seen[v.sig] = true
		c.Violate(v.sig, v.msg, map[string]any{"faults": ep.F.Fired, "trace_tail": ep.W.TraceTail(traceN(c)), "config": fmt.Sprintf("AtLeastOnceMax=%d ExactlyOnceMax=%d", ep.Cfg.AtLeastOnceMax, ep.Cfg.ExactlyOnceMax)})
	}
	for _, o := range ep.W.Online {
		if want["C13"] || want["C06"] {
			c.Violate("deadline-discipline", o, nil)
		}
	}
	if want["C15"] {
		ep.W.Mu.Lock()
		ep.W.Store.CheckPristine()
		mod := append([]string(nil), ep.W.Store.Modified...)
		ep.W.Mu.Unlock()
		for _, m := range mod {
			c.Violate("stored-record-modified-in-place", m, nil)
			break
		}
	}
	accepted, closed := 0, 0
	for _, p := range all {
		if p.Accepted() {
			accepted++
		}
		if p.ClosedSeq != 0 {
			closed++
		}
	}
	c.Count("publishes_accepted", accepted)
	c.Count("exchanges_closed", closed)
	ep.W.Mu.Lock()
	c.Count("connections", len(ep.W.Conns))
	c.Count("store_ops", len(ep.W.Store.Ops))
	c.Count("events", len(ep.W.Trace))
	if ep.W.Store.AliasLoad {
		c.Count("episodes_with_aliasing_load", 1)
	}
	ep.W.Mu.Unlock()
	for k, n := range ep.F.Fired {
		c.Count("fault."+k, n)
	}
}

func faultShape(f *Faults) string {
	var ks []string
	for k, n := range f.Fired {
		if n > 3 {
			n = 3
		}
		ks = append(ks, fmt.Sprintf("%s*%d", k, n))
	}
	sort.Strings(ks)
	return strings.Join(ks, ",")
}

func init() {
	run.Register(&run.Prop{
		ID:    "C01",
		Level: "fault_enumeration",
		Cases: func(tier string) int {
			if tier == "thorough" {
				return 6000
			}
			return 3000
		},
		ChunkSize: 25,
		Rule:      "each case is a PRNG-drawn episode: 1-24 persisted publishes (both levels, retained or not, payload 0 B-140 kB) from 1-3 goroutines against the scripted connection, reference broker and instrumented Persistence (a third of the episodes with a Load that hands out the stored slice itself, as the built-in store does; 1 in 6 on VolatileSession, judged on wire, exchanges and deliveries only; 1 in 6 ends with 1-2 stops and AdoptSession followed by new publishes), with a budget of 0-8 connection-fatal faults (write error at a byte offset, zero-progress expiry, blackholed writes, read EOF/reset/expiry, failed dial, refused or missing CONNACK, lost acknowledgement, transient Load/Save/Delete error) plus harmless ones (short writes with expiry, fragmented reads, stalls with progress, withheld acknowledgements); then faults stop and the episode must reach idle. Non-trivial: at least one connection loss while a message was unacknowledged and a resend observed; distinct by the multiset of fault kinds fired and the numbers of connections and messages.",
		Assumptions: []string{
			"faults are realistic: Close never fails, a failed Write reports fewer bytes than given, store errors have no effect, expiries occur only under an armed deadline",
			"the broker model conforms to MQTT 3.1.1 (acknowledgements in order, retransmission only on reconnect)",
			"exchange closure is observed by a watcher goroutine, so its timestamp is an upper bound",
		},
		Run: func(c *run.Ctx) {
			if c.Case%64 == 9 {
				// the broker acknowledges ahead of a write that then fails; whatever
				// that does to the transfer at hand, what is accepted afterwards is
				// still written
				level := 1 + c.Rng.Intn(2)
				acks := "the first acknowledgement"
				if level == 2 && c.Rng.Intn(2) == 0 {
					acks = "both acknowledgements"
				}
				outcome := []string{"fails", "expires", "is cut off by a reset", "completes"}[c.Rng.Intn(4)]
				if level == 2 && outcome == "is cut off by a reset" {
					outcome = "fails"
				}
				c13AckAhead(c, "C01", level, c.Rng.Intn(3), []int{0, 1, 2, 5, 1 << 20}[c.Rng.Intn(5)], acks, outcome)
				c.Trigger("ack-ahead-of-write|" + outcome)
				return
			}
			pp := pubParams{
				NPub:    1 + c.Rng.Intn(24),
				Levels:  [][]int{{1}, {2}, {1, 2}, {1, 2}}[c.Rng.Intn(4)],
				Conc:    1 + c.Rng.Intn(3),
				Budget:  c.Rng.Intn(9),
				Yield:   c.Rng.Intn(2) == 0,
				SettleP: c.Rng.Float64(),
				BigP:    0.05,
			}
			pp.CleanSession = c.Rng.Intn(4) == 0
			pp.SlowLink = c.Rng.Intn(8) == 0
			if c.Case%6 == 4 {
				pp.Volatile = true
				c.Count("volatile_session_episodes", 1)
			} else if c.Rng.Intn(5) == 0 {
				// the process stops and the session is adopted: what was accepted is still owed
				pp.Restarts = 1 + c.Rng.Intn(2)
				pp.CloseMidPublish = c.Rng.Intn(2) == 0
				c.Count("episodes_with_restarts", 1)
			}
			ep, a, all := runPubWorkload(c, pp)
			reportPubs(c, ep, a, all, "C01", "C08", "C15")
			if a == nil {
				return
			}
			resends := ep.W.PointCount("connect.resent")
			fatal := 0
			for k, n := range ep.F.Fired {
				if !strings.HasPrefix(k, "read.fragment") && !strings.HasPrefix(k, "write.short") && k != "ack.hold" && k != "read.stall" {
					fatal += n
				}
			}
			if fatal > 0 && resends > 1 && len(all) > 0 {
				c.Trigger(fmt.Sprintf("%s|conns=%d|pubs=%d", faultShape(ep.F), min(len(ep.W.Conns), 6), min(len(all), 8)))
			}
			c.Sample(map[string]any{"publishes": len(all), "connections": len(ep.W.Conns), "faults_fired": ep.F.Fired, "events": len(ep.W.Trace)})
		},
	})
}

func traceN(c *run.Ctx) int {
	if c.Verbose {
		return 1 << 20
	}
	return 600
}

func head(b []byte, n int) []byte {
	if len(b) > n {
		return b[:n]
	}
	return b
}
