package props

import (
	"errors"
	"fmt"
	"io"
	"math/rand"
	"strings"
	"time"

	"github.com/pascaldekloe/mqtt"

	"verif/run"
	"verif/sim"
	"verif/wire"
)

// errClasses names the documented classes an error belongs to.
func errClasses(err error) map[string]bool {
	m := map[string]bool{}
	if err == nil {
		m["nil"] = true
		return m
	}
	for name, target := range map[string]error{"ErrClosed": mqtt.ErrClosed, "ErrDown": mqtt.ErrDown, "ErrMax": mqtt.ErrMax, "ErrCanceled": mqtt.ErrCanceled, "ErrSubmit": mqtt.ErrSubmit, "ErrBreak": mqtt.ErrBreak, "ErrAbandoned": mqtt.ErrAbandoned, "SaveError": sim.ErrStore} {
		if errors.Is(err, target) {
			m[name] = true
		}
	}
	if mqtt.IsDeny(err) {
		m["IsDeny"] = true
	}
	var se mqtt.SubscribeError
	if errors.As(err, &se) {
		m["SubscribeError"] = true
	}
	return m
}

func classNames(m map[string]bool) string {
	var s []string
	for k := range m {
		s = append(s, k)
	}
	if len(s) == 0 {
		return "undocumented"
	}
	return strings.Join(s, "+")
}

var notSubmitted = []string{"ErrClosed", "ErrDown", "ErrMax", "ErrCanceled", "IsDeny"}

var documented = map[string][]string{
	"Publish":     {"nil", "ErrClosed", "ErrDown", "ErrCanceled", "IsDeny", "ErrSubmit"},
	"Disconnect":  {"nil", "ErrClosed", "ErrDown", "ErrCanceled", "ErrSubmit"},
	"Subscribe":   {"nil", "ErrClosed", "ErrDown", "ErrMax", "ErrCanceled", "IsDeny", "SubscribeError", "ErrSubmit", "ErrBreak", "ErrAbandoned"},
	"Unsubscribe": {"nil", "ErrClosed", "ErrDown", "ErrMax", "ErrCanceled", "IsDeny", "ErrSubmit", "ErrBreak", "ErrAbandoned"},
	"Ping":        {"nil", "ErrClosed", "ErrDown", "ErrMax", "ErrCanceled", "ErrSubmit", "ErrBreak", "ErrAbandoned"},
	"Persisted":   {"nil", "ErrClosed", "ErrMax", "IsDeny", "SaveError"},
}

type c14Cell struct {
	Method string // Publish PublishRetained Subscribe SubscribeLimitAtMostOnce SubscribeLimitAtLeastOnce Unsubscribe Ping Disconnect PublishAtLeastOnce … PublishExactlyOnceRetained
	State  string // pending-ok pending-fail down online closed
	Place  string // none write-fail-0 write-fail-mid write-fail-last write-expire-0 response-lost response-malformed response-illegal-code response-failed close-during-write close-awaiting close-error close-while-pending
	Quit   string // nil closed-before during-write awaiting-response
	Arg    string // valid invalid
	Store  bool   // Save fails (persisted)
	AtMax  bool   // capacity exhausted first
}

func (c c14Cell) String() string {
	return fmt.Sprintf("%s|%s|%s|quit=%s|arg=%s|store=%v|max=%v", c.Method, c.State, c.Place, c.Quit, c.Arg, c.Store, c.AtMax)
}

func methodKind(m string) string {
	switch {
	case strings.HasPrefix(m, "PublishAtLeastOnce"), strings.HasPrefix(m, "PublishExactlyOnce"):
		return "Persisted"
	case strings.HasPrefix(m, "Publish"):
		return "Publish"
	case strings.HasPrefix(m, "Subscribe"):
		return "Subscribe"
	}
	return m
}

var c14Methods = []string{"Publish", "PublishRetained", "Subscribe", "SubscribeLimitAtMostOnce", "SubscribeLimitAtLeastOnce", "Unsubscribe", "Ping", "Disconnect", "PublishAtLeastOnce", "PublishAtLeastOnceRetained", "PublishExactlyOnce", "PublishExactlyOnceRetained"}

func genCell(r *rand.Rand) c14Cell {
	c := c14Cell{Method: c14Methods[r.Intn(len(c14Methods))], Quit: "nil", Arg: "valid", Place: "none"}
	c.State = []string{"pending-ok", "pending-fail", "down", "online", "online", "online", "online", "closed"}[r.Intn(8)]
	kind := methodKind(c.Method)
	if r.Intn(8) == 0 && kind != "Ping" && kind != "Disconnect" {
		c.Arg = "invalid"
	}
	if kind == "Persisted" {
		c.Store = r.Intn(6) == 0
		c.AtMax = r.Intn(6) == 0
		if c.State == "online" && r.Intn(3) == 0 {
			c.Place = []string{"write-fail-0", "write-fail-mid", "write-expire-0"}[r.Intn(3)]
		}
		return c
	}
	if r.Intn(3) == 0 {
		c.Quit = []string{"closed-before", "during-write", "awaiting-response"}[r.Intn(3)]
		if (kind == "Publish" || kind == "Disconnect") && c.Quit == "awaiting-response" {
			c.Quit = "during-write"
		}
	}
	if c.State != "online" && (c.Quit == "during-write" || c.Quit == "awaiting-response") {
		c.Quit = "closed-before"
	}
	if (c.State == "pending-ok" || c.State == "pending-fail") && c.Quit == "nil" && kind != "Disconnect" && r.Intn(3) == 0 {
		// the client gets closed while the request waits for the connect attempt
		c.Place = "close-while-pending"
	}
	if c.State == "online" && c.Quit == "nil" {
		places := []string{"none", "write-fail-0", "write-fail-mid", "write-fail-last", "write-expire-0", "close-during-write"}
		if kind == "Subscribe" || kind == "Unsubscribe" || kind == "Ping" {
			places = append(places, "response-lost", "close-awaiting")
		}
		if kind == "Subscribe" {
			places = append(places, "response-malformed", "response-illegal-code", "response-failed")
		}
		if kind == "Disconnect" {
			// the packet goes out, then the transport's Close complains
			places = append(places, "close-error", "close-error")
		}
		c.Place = places[r.Intn(len(places))]
	}
	return c
}

// runCell executes one cell and checks the outcome.
func runCell(c *run.Ctx, cell c14Cell) {
	w := sim.NewWorld(c.Rng.Int63())
	defer w.Shutdown()
	sim.InstallHooks(w)
	w.DataCap = 64
	kind := methodKind(cell.Method)
	marker := fmt.Sprintf("mark/%d", c.Rng.Intn(1<<30))
	reqType := map[string]byte{"Publish": wire.PUBLISH, "Persisted": wire.PUBLISH, "Subscribe": wire.SUBSCRIBE, "Unsubscribe": wire.UNSUBSCRIBE, "Ping": wire.PINGREQ, "Disconnect": wire.DISCONNECT}[kind]
	quit := make(chan struct{})
	var quitArg <-chan struct{}
	if cell.Quit != "nil" {
		quitArg = quit
	}
	if cell.Quit == "closed-before" {
		close(quit)
	}

	w.Mu.Lock()
	dialGate := cell.State == "pending-ok" || cell.State == "pending-fail"
	w.DialPlan = func(w *sim.World, attempt int) sim.DialDecision {
		d := sim.DialDecision{}
		if attempt == 1 {
			if dialGate {
				d.Gate = "dial"
			}
			if cell.State == "pending-fail" || cell.State == "down" {
				d.Err = errors.New("sim: dial refused")
			}
		}
		return d
	}
	reqMade := false
	isReq := func(p []byte) bool {
		if len(p) == 0 || p[0]>>4 != reqType {
			return false
		}
		if reqType == wire.PINGREQ || reqType == wire.DISCONNECT {
			return true
		}
		if strings.Contains(string(p), marker) {
			return true
		}
		// the client may hand a packet over in parts: a first part may end
		// inside the marker
		if reqMade {
			for k := len(marker) - 1; k >= 2; k-- {
				if strings.HasSuffix(string(p), marker[:k]) {
					return true
				}
			}
		}
		return false
	}
	reqWrites := 0
	faultInjected := false
	w.WritePlan = func(cn *sim.Conn, p []byte) sim.WriteDecision {
		if !isReq(p) {
			return sim.WriteDecision{Accept: -1}
		}
		reqWrites++
		if reqWrites > 1 {
			return sim.WriteDecision{Accept: -1}
		}
		d := sim.WriteDecision{Accept: -1}
		switch cell.Place {
		case "write-fail-0":
			d = sim.WriteDecision{Accept: 0, Then: "error"}
		case "write-fail-mid":
			d = sim.WriteDecision{Accept: len(p) / 2, Then: "error"}
		case "write-fail-last":
			d = sim.WriteDecision{Accept: len(p) - 1, Then: "error"}
		case "write-expire-0":
			d = sim.WriteDecision{Accept: 0, Then: "timeout"}
		case "close-during-write":
			// the connection gets closed with the packet partly out (or not at all)
			d = sim.WriteDecision{Accept: []int{0, 1, len(p) / 2, len(p) - 1}[w.Rng.Intn(4)], GateAfter: "req"}
		}
		if cell.Quit == "during-write" {
			d.Gate = "req"
		}
		faultInjected = d.Then != "" || d.GateAfter != ""
		return d
	}
	hold := cell.Quit == "awaiting-response" || cell.Place == "close-awaiting"
	w.Broker.AckPolicy = func(b *sim.Broker, cn *sim.Conn, p *wire.Packet, reply []byte) string {
		if p.Type != reqType || p.Type == wire.PUBLISH {
			return ""
		}
		switch {
		case hold:
			return "hold"
		case cell.Place == "response-lost":
			cn.EndInboundLocked(-1, io.EOF)
			return "drop"
		}
		return ""
	}
	w.Broker.SubCodes = func(p *wire.Packet) []byte {
		switch cell.Place {
		case "response-malformed":
			return append(append([]byte{}, p.QoSs...), 0)
		case "response-illegal-code":
			// the right number of return codes, one of them none of 0, 1, 2, 0x80
			codes := append([]byte{}, p.QoSs...)
			codes[len(codes)-1] = []byte{3, 0x7f, 0x81, 0xff}[w.Rng.Intn(4)]
			return codes
		case "response-failed":
			codes := append([]byte{}, p.QoSs...)
			codes[0] = 0x80
			return codes
		}
		return p.QoSs
	}
	storeFail := false
	w.Store.Fail = func(op string, key uint, n int) bool { return storeFail && op == "save" }
	w.Mu.Unlock()

	cfg := mqtt.Config{Dialer: w.Dialer(), PauseTimeout: time.Hour, ReconnectWaitMin: time.Microsecond, AtLeastOnceMax: 2, ExactlyOnceMax: 2}
	cl, err := mqtt.InitSession("c14", w.Store, &cfg)
	if err != nil {
		c.Violate("init-failed", err.Error(), nil)
		return
	}
	d := sim.NewDriver(w, cl, nil, 0)
	d.Manual = true
	d.StartReader()
	detail := func() map[string]any {
		return map[string]any{"cell": cell.String(), "trace_tail": w.TraceTail(traceN(c))}
	}
	stuck := func(what string) {
		wedged, report := w.Diagnose(1500 * time.Millisecond)
		if wedged {
			dt := detail()
			dt["report"] = report
			c.Violate("request-never-returns", cell.String()+": "+what, dt)
		} else {
			c.Inconclusive(cell.String() + ": slow: " + what)
		}
		c.Spoiled()
	}

	// bring the client into the state
	switch cell.State {
	case "online":
		d.GrantWhenPaused(sim.StepTimeout)
		if !w.WaitUntil(sim.StepTimeout, func() bool { return w.ReaderQuietLocked() && len(w.Conns) > 0 }) {
			stuck("connect")
			return
		}
	case "down":
		d.GrantWhenPaused(sim.StepTimeout)
		if !w.WaitUntil(sim.StepTimeout, func() bool { return d.ReadCount() >= 1 }) {
			stuck("failed connect")
			return
		}
	case "closed":
		cl.Close()
	case "pending-ok", "pending-fail":
		d.GrantWhenPaused(sim.StepTimeout)
		if !w.WaitGateWaiting("dial", 1, sim.StepTimeout) {
			stuck("dial gate")
			return
		}
	}

	// capacity exhausted first (persisted): the connection is down or pending, or the broker holds
	if cell.AtMax && kind == "Persisted" {
		w.Mu.Lock()
		w.Broker.AckPolicy = func(b *sim.Broker, cn *sim.Conn, p *wire.Packet, reply []byte) string { return "hold" }
		w.Mu.Unlock()
		lvl := 1
		if strings.HasPrefix(cell.Method, "PublishExactlyOnce") {
			lvl = 2
		}
		for i := 0; i < 2; i++ {
			d.Publish(lvl, false, 1)
		}
	}
	// one transfer of the same level pending before a Save failure: the refusal
	// must leave it alone
	var earlier *sim.Pub
	if cell.Store && !cell.AtMax && kind == "Persisted" && cell.State == "online" && cell.Arg == "valid" {
		w.Mu.Lock()
		w.Broker.AckPolicy = func(b *sim.Broker, cn *sim.Conn, p *wire.Packet, reply []byte) string { return "hold" }
		w.Mu.Unlock()
		lvl := 1
		if strings.HasPrefix(cell.Method, "PublishExactlyOnce") {
			lvl = 2
		}
		earlier = d.Publish(lvl, false, 1)
		w.WaitReaderQuiet(sim.StepTimeout)
	}
	w.Mu.Lock()
	storeFail = cell.Store
	reqMade = true
	if cell.Place == "close-error" {
		w.CloseErr = errors.New("sim: close: transport complains")
	}
	w.Mu.Unlock()

	topic := marker
	if cell.Arg == "invalid" {
		topic = marker + "\x00"
	}
	before := w.Now()
	var exchange <-chan error
	call := d.Go(cell.Method, func() error {
		switch cell.Method {
		case "Publish":
			return cl.Publish(quitArg, []byte("payload"), topic)
		case "PublishRetained":
			return cl.PublishRetained(quitArg, []byte("payload"), topic)
		case "Subscribe":
			return cl.Subscribe(quitArg, topic, topic+"/2")
		case "SubscribeLimitAtMostOnce":
			return cl.SubscribeLimitAtMostOnce(quitArg, topic, topic+"/2")
		case "SubscribeLimitAtLeastOnce":
			return cl.SubscribeLimitAtLeastOnce(quitArg, topic, topic+"/2")
		case "Unsubscribe":
			return cl.Unsubscribe(quitArg, topic)
		case "Ping":
			return cl.Ping(quitArg)
		case "Disconnect":
			return cl.Disconnect(quitArg)
		case "PublishAtLeastOnce":
			x, err := cl.PublishAtLeastOnce([]byte("payload"), topic)
			exchange = x
			return err
		case "PublishAtLeastOnceRetained":
			x, err := cl.PublishAtLeastOnceRetained([]byte("payload"), topic)
			exchange = x
			return err
		case "PublishExactlyOnce":
			x, err := cl.PublishExactlyOnce([]byte("payload"), topic)
			exchange = x
			return err
		default:
			x, err := cl.PublishExactlyOnceRetained([]byte("payload"), topic)
			exchange = x
			return err
		}
	})

	// timed actions
	if cell.Place == "close-during-write" || cell.Quit == "during-write" {
		if w.WaitUntil(2*time.Second, func() bool { return w.Gate("req").Waiting > 0 || call.Returned() }) && !call.Returned() {
			if cell.Quit == "during-write" {
				close(quit)
			} else {
				go cl.Close()
				w.WaitUntil(time.Second, func() bool { return w.Cur() != nil && w.Cur().Closed() })
			}
			w.Open("req")
		}
	}
	if hold {
		// wait until the request reached the broker, then act
		if w.WaitUntil(2*time.Second, func() bool { return len(w.Broker.Held) > 0 || call.Returned() }) && !call.Returned() {
			if cell.Quit == "awaiting-response" {
				close(quit)
			} else {
				go cl.Close()
			}
		}
	}
	if dialGate {
		// the request waits for the outcome of the connect attempt
		time.Sleep(time.Millisecond)
		if call.Returned() && kind != "Persisted" && kind != "Disconnect" && cell.Quit == "nil" && cell.Arg == "valid" {
			c.Violate("request-did-not-await-connect", fmt.Sprintf("%s returned %v while the first connect attempt was still in progress", cell.Method, call.Err), detail())
		}
		if cell.Place == "close-while-pending" {
			closed := make(chan struct{})
			go func() { cl.Close(); close(closed) }()
			select {
			case <-closed:
			case <-time.After(sim.StepTimeout):
			}
		}
		w.Open("dial")
	}
	// let the read routine serve responses; a retry of the connect must not
	// come before the request saw the failed attempt (20 ms poll in the client)
	if cell.State == "down" || cell.State == "pending-fail" || cell.State == "closed" {
		w.WaitUntil(2*time.Second, func() bool { return call.Returned() })
	}
	for i := 0; i < 6 && !call.Returned(); i++ {
		d.GrantIfPaused()
		w.WaitUntil(200*time.Millisecond, func() bool { return call.Returned() })
	}
	if !w.WaitUntil(sim.StepTimeout, func() bool { return call.Returned() }) {
		stuck("request outstanding")
		return
	}
	<-call.Done
	err = call.Err
	classes := errClasses(err)

	// 1. documented class
	okClass := false
	for _, k := range documented[kind] {
		if classes[k] {
			okClass = true
		}
	}
	if !okClass {
		c.Violate("undocumented-error-class", fmt.Sprintf("%s: %s returned %q which is none of %v", cell, cell.Method, err, documented[kind]), detail())
	}
	// 2. not submitted means no byte on any connection
	w.Mu.Lock()
	reqBytes, reqComplete := 0, false
	for _, cn := range w.Conns {
		pk, rest, _ := wire.ParseStream(cn.Out, true)
		for _, p := range pk {
			if p.Type == reqType && (reqType == wire.PINGREQ || reqType == wire.DISCONNECT || strings.Contains(string(p.Raw), marker)) {
				reqBytes += len(p.Raw)
				reqComplete = true
			}
		}
		if len(rest) > 0 && rest[0]>>4 == reqType && (reqType == wire.PINGREQ || reqType == wire.DISCONNECT || strings.Contains(string(rest), marker) || len(rest) < 4+len(marker)) {
			reqBytes += len(rest)
		}
	}
	saved := false
	for _, op := range w.Store.Ops {
		if op.Op == "save" && !op.Err && op.CallSeq > before && strings.Contains(string(op.Value), marker) {
			saved = true
		}
	}
	w.Mu.Unlock()
	for _, k := range notSubmitted {
		if classes[k] && reqBytes != 0 && kind != "Persisted" {
			c.Violate("not-submitted-class-after-bytes-written", fmt.Sprintf("%s: %s returned %q (%s) although %d bytes of the request were written", cell, cell.Method, err, k, reqBytes), detail())
		}
	}
	if (classes["ErrAbandoned"] || classes["ErrBreak"]) && !reqComplete {
		c.Violate("after-submission-class-without-complete-packet", fmt.Sprintf("%s: %s returned %q although its packet is not completely on any connection", cell, cell.Method, err), detail())
	}
	// 3. a quit signal alone gives ErrCanceled or ErrAbandoned
	if cell.Quit != "nil" && cell.State == "online" && cell.Arg == "valid" && err != nil {
		if !classes["ErrCanceled"] && !classes["ErrAbandoned"] {
			c.Violate("quit-gives-other-error", fmt.Sprintf("%s: %s returned %q, want ErrCanceled or ErrAbandoned", cell, cell.Method, err), detail())
		}
		if classes["ErrAbandoned"] && (kind == "Publish" || kind == "Disconnect") {
			c.Violate("quit-gives-other-error", fmt.Sprintf("%s: %s returned ErrAbandoned, documented is ErrCanceled only", cell, cell.Method), detail())
		}
	}
	// 4. a persisted publish that returns an error was not enqueued
	if kind == "Persisted" {
		if err != nil {
			if saved || reqBytes != 0 {
				c.Violate("refused-publish-left-trace", fmt.Sprintf("%s: %s returned %q yet record saved=%v, bytes written=%d", cell, cell.Method, err, saved, reqBytes), detail())
			}
			if exchange != nil {
				c.Violate("refused-publish-left-trace", fmt.Sprintf("%s: error %q together with an exchange channel", cell, err), detail())
			}
			// capacity unchanged: the level still takes its maximum of two
			if !cell.AtMax && cell.State != "closed" && cell.State != "pending-ok" && cell.State != "pending-fail" {
				w.Mu.Lock()
				storeFail = false
				w.Broker.AckPolicy = func(b *sim.Broker, cn *sim.Conn, p *wire.Packet, reply []byte) string { return "hold" }
				w.Mu.Unlock()
				lvl := 1
				if strings.HasPrefix(cell.Method, "PublishExactlyOnce") {
					lvl = 2
				}
				room := 2
				if earlier != nil && earlier.Err == nil {
					room = 1
				}
				for i := 0; i < room; i++ {
					if p := d.Publish(lvl, false, 1); p.Err != nil {
						c.Violate("refused-publish-consumed-capacity", fmt.Sprintf("%s: after the refusal (%q) publish %d of the %d that still fit got %q", cell, err, i+1, room, p.Err), detail())
						break
					}
				}
				if earlier != nil && earlier.Err == nil {
					// the broker answers: what was pending before the refusal completes, in order
					w.Mu.Lock()
					w.Broker.AckPolicy = nil
					w.Mu.Unlock()
					w.Broker.ReleaseHeld()
					done := func() bool { return earlier.ClosedSeq != 0 }
					if !w.WaitUntil(sim.StepTimeout, done) {
						wedged, report := w.Diagnose(1500 * time.Millisecond)
						if !w.WaitUntil(time.Millisecond, done) {
							if wedged {
								dt := detail()
								dt["report"] = report
								c.Violate("refused-publish-disturbed-pending-transfer", fmt.Sprintf("%s: the transfer that was pending when %s got refused (%q) never completed although the broker acknowledged it", cell, cell.Method, err), dt)
							} else {
								c.Inconclusive("pending transfer slow after a refusal")
							}
							c.Spoiled()
						}
					}
				}
			}
		} else if !saved {
			c.Violate("accepted-without-save", fmt.Sprintf("%s: %s accepted without a record", cell, cell.Method), detail())
		}
		// expectations by construction
		switch {
		case cell.Arg == "invalid" && !classes["IsDeny"]:
			c.Violate("expected-class-missing", fmt.Sprintf("%s: invalid topic gave %q", cell, err), detail())
		case cell.Arg == "valid" && cell.State == "closed":
			// before ReadSlices reported ErrClosed the publish may still be
			// accepted or refused on capacity or Save failure; any documented class
		case cell.Arg == "valid" && cell.State != "closed" && cell.AtMax && !classes["ErrMax"]:
			c.Violate("expected-class-missing", fmt.Sprintf("%s: publish beyond the maximum gave %v", cell, err), detail())
		case cell.Arg == "valid" && cell.State != "closed" && !cell.AtMax && cell.Store && !classes["SaveError"]:
			c.Violate("expected-class-missing", fmt.Sprintf("%s: failing Save gave %v", cell, err), detail())
		}
	} else {
		// expectations by construction for the requests
		want := ""
		w.Mu.Lock()
		faultInjected := faultInjected
		w.Mu.Unlock()
		switch {
		case cell.Arg == "invalid":
			want = "IsDeny"
		case cell.State == "closed" && cell.Quit == "nil":
			want = "ErrClosed"
		case cell.Place == "close-while-pending" && kind != "Persisted":
			want = "ErrClosed"
		case cell.Quit == "nil" && (cell.State == "down" || cell.State == "pending-fail"):
			want = "ErrDown"
		case cell.Quit == "nil" && cell.State == "online" && strings.HasPrefix(cell.Place, "write-") && !faultInjected:
			// the fault did not find its write: nothing to expect from it
			c.Count("write_fault_not_injected", 1)
		case cell.Quit == "nil" && cell.State == "online" && strings.HasPrefix(cell.Place, "write-"):
			want = "ErrSubmit"
		case cell.Quit == "nil" && cell.State == "online" && (cell.Place == "response-lost" || cell.Place == "response-malformed" || cell.Place == "response-illegal-code"):
			want = "ErrBreak"
		case cell.Quit == "nil" && cell.State == "online" && cell.Place == "response-failed":
			want = "SubscribeError"
		case kind == "Disconnect" && cell.State == "pending-ok":
			want = "" // Disconnect does not wait for a connect in progress: ErrDown
		case cell.Quit == "nil" && (cell.State == "online" || cell.State == "pending-ok") && cell.Place == "none":
			want = "nil"
		}
		if want != "" && !classes[want] {
			c.Violate("expected-class-missing", fmt.Sprintf("%s: %s returned %q (%s), want %s", cell, cell.Method, err, classNames(classes), want), detail())
		}
	}
	if !d.CloseAndWait() {
		c.Spoiled()
		return
	}
	// classifier laws on the value the library produced (the read routine is
	// over: ReadBackoff belongs to it)
	collectDenySamples(nil)
	checkClassifierLaws(c, cl, err, "library error from "+cell.String())
	c.Trigger(fmt.Sprintf("%s|%s|%s|quit=%s|arg=%s|%v|%v=>%s", kind, cell.State, cell.Place, cell.Quit, cell.Arg, cell.Store, cell.AtMax, classNames(classes)))
	c.Count("cells_run", 1)
	c.Count("class."+classNames(classes), 1)
}

// ---- classifier laws ----

type isErr struct{ target error }

func (e isErr) Error() string   { return "custom Is for " + e.target.Error() }
func (e isErr) Is(t error) bool { return t == e.target }

type unwrapErr struct{ inner error }

func (e unwrapErr) Error() string { return "custom Unwrap of " + e.inner.Error() }
func (e unwrapErr) Unwrap() error { return e.inner }

type multiErr struct{ inner []error }

func (e multiErr) Error() string   { return fmt.Sprintf("custom multi of %d", len(e.inner)) }
func (e multiErr) Unwrap() []error { return e.inner }

var denySamples []error

func collectDenySamples(cl *mqtt.Client) {
	if denySamples != nil {
		return
	}
	if cl == nil {
		w := sim.NewWorld(1)
		defer w.Shutdown()
		cfg := mqtt.Config{Dialer: w.Dialer()}
		var err error
		if cl, err = mqtt.VolatileSession("deny-samples", &cfg); err != nil {
			return
		}
		defer cl.Close()
	}
	for _, f := range []func() error{
		func() error { return cl.Publish(nil, nil, "") },
		func() error { return cl.Publish(nil, nil, "\xff") },
		func() error { return cl.Publish(nil, nil, "a\x00") },
		func() error { return cl.Publish(nil, nil, strings.Repeat("x", 65536)) },
		func() error { return cl.Subscribe(nil) },
		func() error { return cl.Unsubscribe(nil) },
		func() error { return cl.Publish(nil, make([]byte, packetMax), "t") },
	} {
		if err := f(); err != nil {
			denySamples = append(denySamples, err)
		}
	}
}

// genErrTree builds a random error tree; the reference classes are computed
// with the standard library on the same value.
func genErrTree(r *rand.Rand, depth int) error {
	leaves := []error{mqtt.ErrClosed, mqtt.ErrCanceled, mqtt.ErrAbandoned, mqtt.ErrDown, mqtt.ErrMax, mqtt.ErrSubmit, mqtt.ErrBreak, io.EOF, errors.New("plain"), mqtt.SubscribeError{"x"}, mqtt.ErrAuth}
	leaves = append(leaves, denySamples...)
	if depth <= 0 || r.Intn(3) == 0 {
		return leaves[r.Intn(len(leaves))]
	}
	switch r.Intn(6) {
	case 0:
		return fmt.Errorf("wrap: %w", genErrTree(r, depth-1))
	case 1:
		return errors.Join(genErrTree(r, depth-1), genErrTree(r, depth-1))
	case 2:
		return fmt.Errorf("two: %w and %w", genErrTree(r, depth-1), genErrTree(r, depth-1))
	case 3:
		return unwrapErr{genErrTree(r, depth-1)}
	case 4:
		n := 1 + r.Intn(3)
		m := multiErr{}
		for i := 0; i < n; i++ {
			m.inner = append(m.inner, genErrTree(r, depth-1))
		}
		return m
	default:
		return errors.Join(errors.Join(genErrTree(r, depth-1), genErrTree(r, depth-1)), isErr{leaves[r.Intn(len(leaves))]}, genErrTree(r, depth-1))
	}
}

func checkClassifierLaws(c *run.Ctx, cl *mqtt.Client, err error, origin string) bool {
	// reference with the standard library, before the library touches the value
	refEnd := err != nil && (errors.Is(err, mqtt.ErrClosed) || errors.Is(err, mqtt.ErrCanceled) || errors.Is(err, mqtt.ErrAbandoned))
	refDeny := false
	if err != nil {
		for _, d := range denySamples {
			// the deny sentinels are private: use what the library itself wrapped
			for u := d; u != nil; u = errors.Unwrap(u) {
				if errors.Unwrap(u) == nil && errors.Is(err, u) {
					refDeny = true
				}
			}
		}
	}
	var se mqtt.SubscribeError
	refSub := errors.As(err, &se)
	text := ""
	if err != nil {
		text = err.Error()
	}
	refMax := err != nil && errors.Is(err, mqtt.ErrMax)

	gotDeny, gotEnd := mqtt.IsDeny(err), mqtt.IsEnd(err)
	bo := cl.Backoff(err)
	rb := cl.ReadBackoff(err)
	ok := true
	fail := func(sig, msg string) {
		ok = false
		c.Violate(sig, origin+": "+msg, map[string]any{"error": text})
	}
	if err != nil && err.Error() != text {
		fail("classifier-modified-error", fmt.Sprintf("the error value changed under classification: now %q", err.Error()))
	}
	if err != nil && refEnd != (errors.Is(err, mqtt.ErrClosed) || errors.Is(err, mqtt.ErrCanceled) || errors.Is(err, mqtt.ErrAbandoned)) {
		fail("classifier-modified-error", "errors.Is gives another answer after classification")
	}
	if gotEnd != refEnd {
		fail("isend-disagrees-with-errors-is", fmt.Sprintf("IsEnd=%v, errors.Is on ErrClosed/ErrCanceled/ErrAbandoned=%v", gotEnd, refEnd))
	}
	if len(denySamples) != 0 && gotDeny != refDeny {
		fail("isdeny-disagrees-with-errors-is", fmt.Sprintf("IsDeny=%v, errors.Is on the deny sentinels=%v", gotDeny, refDeny))
	}
	// disjointness is claimed for the errors the library produces, not for hand-joined ones
	if gotDeny && gotEnd && strings.HasPrefix(origin, "library") {
		fail("isdeny-and-isend-both-true", "both classifiers claim the error")
	}
	permanent := err == nil || refDeny || refEnd || refSub
	// a hand-made tree holding both ErrMax (retry) and SubscribeError (permanent)
	// has no documented precedence: either answer
	ambiguous := refSub && refMax && !refDeny && !refEnd
	if (bo == nil) != permanent && !ambiguous {
		fail("backoff-nil-mismatch", fmt.Sprintf("Backoff returned nil=%v, permanent class=%v (deny=%v end=%v subscribe=%v)", bo == nil, permanent, refDeny, refEnd, refSub))
	}
	wantRBnil := err != nil && errors.Is(err, mqtt.ErrClosed)
	if err != nil && (rb == nil) != wantRBnil {
		fail("readbackoff-nil-mismatch", fmt.Sprintf("ReadBackoff returned nil=%v, ErrClosed=%v", rb == nil, wantRBnil))
	}
	return ok
}

func init() {
	run.Register(&run.Prop{
		ID:    "C14",
		Level: "exploration",
		Cases: func(tier string) int {
			if tier == "thorough" {
				return 20000
			}
			return 3000
		},
		ChunkSize:   50,
		Rule:        "each case is one cell of method (12 request methods) x client state (first connect in progress then succeeding / failing, down, online, closed) x fault placement (request write fails at byte 0 / middle / last byte, zero-progress expiry, response lost with the connection, SUBACK with a wrong number of codes, SUBACK failing a filter, Close during the write, Close while awaiting the response) x quit (nil, closed before, closed during the write, closed while awaiting the response) x argument validity x Save failure x capacity exhausted, drawn by PRNG, placed with connection gates; the request's bytes are attributable by a unique topic marker (Ping/Disconnect by their fixed packets). Oracle: the error is in the documented set of its method; ErrClosed/ErrDown/ErrMax/ErrCanceled/IsDeny only with zero bytes of the request on every connection; ErrBreak/ErrAbandoned only with the packet completely written; quit alone gives only ErrCanceled/ErrAbandoned; a persisted publish that returned an error left no record, no bytes and no exchange; the class expected by construction of the cell is present. Every 10th case runs the classifier laws on 2,000 generated error trees (fmt.Errorf %w chains, double %w, errors.Join nests, custom Is / Unwrap / Unwrap []error over all exported sentinels and the deny errors the library produced): IsDeny/IsEnd agree with errors.Is, Backoff returns nil exactly for nil/IsDeny/IsEnd/SubscribeError, ReadBackoff nil exactly for ErrClosed, and classification does not modify the error. Distinct by (cell, resulting class).",
		Assumptions: []string{"conn.Close never fails, so Disconnect's raw Close error is not exercised", "closed quit and a free write lock race by design: nil is accepted next to ErrCanceled"},
		Run: func(c *run.Ctx) {
			if c.Case%10 == 9 {
				w := sim.NewWorld(1)
				defer w.Shutdown()
				cfg := mqtt.Config{Dialer: w.Dialer(), ReconnectWaitMin: time.Microsecond}
				cl, err := mqtt.VolatileSession("laws", &cfg)
				if err != nil {
					c.Violate("init-failed", err.Error(), nil)
					return
				}
				collectDenySamples(cl)
				n := 0
				for i := 0; i < 2000; i++ {
					e := genErrTree(c.Rng, 1+c.Rng.Intn(4))
					n++
					if !checkClassifierLaws(c, cl, e, "generated error tree") {
						break
					}
				}
				cl.Close()
				c.Count("error_trees_classified", n)
				c.Trigger("classifier-laws")
				c.Sample(map[string]any{"part": "classifier laws", "trees": n})
				return
			}
			cell := genCell(c.Rng)
			runCell(c, cell)
			c.Sample(map[string]any{"cell": cell.String()})
		},
	})
}
