package props

import (
	"bytes"
	"errors"
	"fmt"
	"io"
	"sort"
	"strconv"
	"strings"
	"time"

	"github.com/pascaldekloe/mqtt"

	"verif/run"
	"verif/sim"
	"verif/wire"
)

// Faults is the PRNG-driven fault script of the publish workloads. All
// decisions are taken with World.Mu held and consume World.Rng.
type Faults struct {
	Budget int // connection-fatal faults left

	PShortWrite float64 // expiry after partial progress (harmless)
	PWriteFail  float64 // hard error or zero-progress expiry
	PBlackhole  float64
	PFragment   float64 // deliver fewer bytes than available
	PReadStall  float64 // expiry after progress
	PReadFail   float64 // EOF, reset or zero-progress expiry
	PDialFail   float64
	PRefuse     float64
	PHold       float64
	PAckLost    float64
	PStoreFail  float64

	// SlowLink: on every connection, for good, the first Write of each packet
	// expires after some progress and the continuation goes through: no fault,
	// just a link on which a packet takes longer than one PauseTimeout.
	SlowLink bool
	slowLast map[*sim.Conn]bool

	Fired map[string]int
	Armed bool // store faults apply (after session set-up)
	Off   bool // no faults at all (prelude)
}

func (f *Faults) fire(kind string, fatal bool) {
	if f.Fired == nil {
		f.Fired = map[string]int{}
	}
	f.Fired[kind]++
	if fatal {
		f.Budget--
	}
}

// Heal stops all faults.
func (f *Faults) Heal(w *sim.World) {
	w.Mu.Lock()
	f.Budget = 0
	f.PShortWrite, f.PHold, f.PReadStall = 0, 0, 0
	w.Mu.Unlock()
}

func (f *Faults) install(w *sim.World) {
	w.WritePlan = func(c *sim.Conn, p []byte) sim.WriteDecision {
		if f.SlowLink && !f.Off {
			if f.slowLast == nil {
				f.slowLast = map[*sim.Conn]bool{}
			}
			if len(p) > 1 && !f.slowLast[c] {
				f.slowLast[c] = true
				f.fire("write.slow-link", false)
				return sim.WriteDecision{Accept: 1 + w.Rng.Intn(len(p)-1), Then: "timeout"}
			}
			f.slowLast[c] = false
		}
		if f.Off {
			return sim.WriteDecision{Accept: -1}
		}
		r := w.Rng.Float64()
		if f.Budget <= 0 {
			r += f.PWriteFail + f.PBlackhole
		}
		switch {
		case f.Budget > 0 && r < f.PWriteFail:
			f.fire("write.fail", true)
			n := 0
			if len(p) > 0 {
				n = w.Rng.Intn(len(p))
			}
			then := "error"
			if w.Rng.Intn(3) == 0 {
				then, n = "timeout", 0
			}
			return sim.WriteDecision{Accept: n, Then: then}
		case f.Budget > 0 && r < f.PWriteFail+f.PBlackhole:
			f.fire("write.blackhole", true)
			c.EndInboundLocked(-1, &netReset{})
			return sim.WriteDecision{Accept: -1, Blackhole: true}
		case len(p) > 1 && r < f.PWriteFail+f.PBlackhole+f.PShortWrite:
			f.fire("write.short", false)
			return sim.WriteDecision{Accept: 1 + w.Rng.Intn(len(p)-1), Then: "timeout"}
		}
		return sim.WriteDecision{Accept: -1}
	}
	w.ReadPlan = func(c *sim.Conn, avail int) sim.ReadDecision {
		if avail == 0 {
			return sim.ReadDecision{Then: "block"}
		}
		if f.Off {
			return sim.ReadDecision{Deliver: -1}
		}
		r := w.Rng.Float64()
		if f.Budget <= 0 {
			r += f.PReadFail
		}
		switch {
		case f.Budget > 0 && r < f.PReadFail:
			f.fire("read.fail", true)
			then := [...]string{"eof", "reset", "timeout"}[w.Rng.Intn(3)]
			n := w.Rng.Intn(avail + 1)
			if then == "timeout" {
				n = 0
			}
			return sim.ReadDecision{Deliver: n, Then: then}
		case avail > 1 && r < f.PReadFail+f.PReadStall:
			f.fire("read.stall", false)
			return sim.ReadDecision{Deliver: 1 + w.Rng.Intn(avail-1), Then: "timeout"}
		case avail > 1 && r < f.PReadFail+f.PReadStall+f.PFragment:
			f.fire("read.fragment", false)
			return sim.ReadDecision{Deliver: 1 + w.Rng.Intn(avail-1)}
		}
		return sim.ReadDecision{Deliver: -1}
	}
	w.DialPlan = func(w *sim.World, attempt int) sim.DialDecision {
		if !f.Off && f.Budget > 0 && w.Rng.Float64() < f.PDialFail {
			f.fire("dial.fail", true)
			return sim.DialDecision{Err: errors.New("sim: dial refused")}
		}
		return sim.DialDecision{}
	}
	w.Broker.Connack = func(b *sim.Broker, c *sim.Conn, p *wire.Packet) []byte {
		if !f.Off && f.Budget > 0 && w.Rng.Float64() < f.PRefuse {
			f.fire("connack.refuse", true)
			switch w.Rng.Intn(3) {
			case 0:
				c.EndInboundLocked(-1, io.EOF)
				return nil
			default:
				return wire.Connack(false, byte(1+w.Rng.Intn(5)))
			}
		}
		sp := b.State.Session && !p.Connect.CleanSession
		return wire.Connack(sp, 0)
	}
	w.Broker.AckPolicy = func(b *sim.Broker, c *sim.Conn, p *wire.Packet, reply []byte) string {
		if f.Off {
			return ""
		}
		r := w.Rng.Float64()
		if f.Budget <= 0 {
			r += f.PAckLost
		}
		switch {
		case f.Budget > 0 && r < f.PAckLost:
			f.fire("ack.lost", true)
			// the connection dies before the reply gets through
			c.EndInboundLocked(-1, &netReset{})
			return "drop"
		case r < f.PAckLost+f.PHold:
			f.fire("ack.hold", false)
			return "hold"
		}
		return ""
	}
	w.Store.Fail = func(op string, key uint, n int) bool {
		if !f.Off && f.Armed && f.Budget > 0 && op != "list" && w.Rng.Float64() < f.PStoreFail {
			f.fire("store."+op, true)
			return true
		}
		return false
	}
}

type netReset struct{}

func (*netReset) Error() string   { return "sim: connection reset by peer" }
func (*netReset) Timeout() bool   { return false }
func (*netReset) Temporary() bool { return false }

// Episode bundles a world with a client.
type Episode struct {
	Ctx    *run.Ctx
	W      *sim.World
	D      *sim.Driver
	F      *Faults
	Cfg    mqtt.Config
	Marker int
}

// newEpisode creates the world; the caller sets faults and then calls Init.
func newEpisode(c *run.Ctx) *Episode {
	w := sim.NewWorld(c.Rng.Int63())
	sim.InstallHooks(w)
	ep := &Episode{Ctx: c, W: w, F: &Faults{}}
	ep.Cfg = mqtt.Config{
		PauseTimeout:     time.Hour,
		ReconnectWaitMin: time.Microsecond,
		ReconnectWaitMax: time.Microsecond,
		AtLeastOnceMax:   16,
		ExactlyOnceMax:   16,
	}
	w.RequireDeadlines = true
	return ep
}

// Init creates the session and starts the read routine.
func (ep *Episode) Init() error {
	ep.Cfg.Dialer = ep.W.Dialer()
	ep.F.install(ep.W)
	cfg := ep.Cfg
	cl, err := mqtt.InitSession("verif-client", ep.W.Store, &cfg)
	if err != nil {
		return err
	}
	ep.D = sim.NewDriver(ep.W, cl, &ep.Marker, 0)
	ep.W.Mu.Lock()
	ep.F.Armed = true
	ep.W.Mu.Unlock()
	return nil
}

// InitVolatile creates a VolatileSession (the library's own in-memory store,
// not observable) and starts nothing yet.
func (ep *Episode) InitVolatile() error {
	ep.Cfg.Dialer = ep.W.Dialer()
	ep.F.install(ep.W)
	cfg := ep.Cfg
	cl, err := mqtt.VolatileSession("verif-client", &cfg)
	if err != nil {
		return err
	}
	ep.D = sim.NewDriver(ep.W, cl, &ep.Marker, 0)
	return nil
}

// analyzeVolatile applies what can be judged without seeing the store: whole
// packets, PUBREL only for an identifier whose PUBREC was delivered, no PUBLISH
// of an exactly-once message once its PUBREL went out, completion only after
// the final acknowledgement, and at idle everything completed and delivered.
func analyzeVolatile(ep *Episode, allPubs []*sim.Pub, final bool) *pubAnalysis {
	w := ep.W
	w.Mu.Lock()
	defer w.Mu.Unlock()
	a := &pubAnalysis{ep: ep, pubs: map[int]*pubInfo{}, byKey: map[uint][]*pubInfo{}}
	for _, p := range allPubs {
		a.pubs[p.N] = &pubInfo{pub: p}
	}
	type idUse struct {
		n       int   // marker
		first   int64 // first byte of its first PUBLISH
		relSeq  int64 // first PUBREL written
		recSeq  int64 // PUBREC delivered
		doneSeq int64 // final acknowledgement delivered
	}
	uses := map[uint16][]*idUse{} // per identifier, in order of use
	cur := func(id uint16) *idUse {
		if l := uses[id]; len(l) > 0 {
			return l[len(l)-1]
		}
		return nil
	}
	type ev struct {
		seq int64
		p   *wire.Packet
		out bool
		ci  int
	}
	var evs []ev
	for _, c := range w.Conns {
		pk, _, err := wire.ParseStream(c.Out, true)
		if err != nil {
			a.violate("C08", "malformed-outbound-stream", "conn %d: %v", c.Idx, err)
		}
		a.out = append(a.out, pk)
		for _, p := range pk {
			evs = append(evs, ev{c.SeqOfOut(p.Offset + 1), p, true, c.Idx})
		}
		ik, _, _ := wire.ParseStream(c.In[:c.InPos], false)
		a.in = append(a.in, ik)
		for _, p := range ik {
			evs = append(evs, ev{c.SeqOfIn(p.Offset + len(p.Raw)), p, false, c.Idx})
		}
	}
	sort.SliceStable(evs, func(i, j int) bool { return evs[i].seq < evs[j].seq })
	byMarker := map[int]*idUse{}
	for _, e := range evs {
		p := e.p
		switch {
		case e.out && p.Type == wire.PUBLISH && p.QoS > 0:
			n := markerOfTopic(p.Topic)
			pi := a.pubs[n]
			if pi == nil {
				a.violate("C01", "unknown-packet-on-wire", "conn %d carries %s which matches no message", e.ci, p)
				continue
			}
			u := byMarker[n]
			if u == nil {
				if prev := cur(p.ID); prev != nil && prev.doneSeq == 0 {
					a.violate("C17", "identifier-reused-in-flight", "identifier %#x was given to message %d at #%d while message %d still held it", p.ID, n, e.seq, prev.n)
				}
				u = &idUse{n: n, first: e.seq}
				byMarker[n] = u
				uses[p.ID] = append(uses[p.ID], u)
				pi.key = uint(p.ID)
			} else if uint(p.ID) != pi.key {
				a.violate("C17", "identifier-changed", "conn %d: message %d carries identifier %#x, before %#x", e.ci, n, p.ID, pi.key)
			}
			if want := wire.Publish(pi.pub.Topic, pi.pub.Payload, byte(pi.pub.Level), p.ID, p.Dup, pi.pub.Retain); !bytes.Equal(want, p.Raw) {
				a.violate("C01", "wire-differs-from-request", "conn %d: PUBLISH of message %d differs from what was requested", e.ci, n)
			}
			if u.relSeq != 0 {
				a.violate("C03", "publish-after-pubrel", "conn %d: PUBLISH of exactly-once message %d written at #%d after its PUBREL went out at #%d", e.ci, n, e.seq, u.relSeq)
			}
			// (acknowledgement bytes handed to Read may still get dropped with the
			// connection when an earlier packet of the same read fails; the closed
			// exchange is what tells completion)
			if pi.pub.ClosedSeq != 0 && pi.pub.ClosedSeq < e.seq {
				a.violate("C01", "publish-after-completion", "conn %d: PUBLISH of message %d written at #%d after its exchange closed at #%d", e.ci, n, e.seq, pi.pub.ClosedSeq)
			}
		case e.out && p.Type == wire.PUBREL:
			u := cur(p.ID)
			if u == nil || u.recSeq == 0 || u.doneSeq != 0 && u.doneSeq < e.seq && u.relSeq == 0 {
				a.violate("C03", "pubrel-without-pubrec", "conn %d: PUBREL %#x written at #%d without a PUBREC delivered for a message in flight under that identifier", e.ci, p.ID, e.seq)
				continue
			}
			if u.relSeq == 0 {
				u.relSeq = e.seq
			}
		case !e.out && p.Type == wire.PUBREC:
			if u := cur(p.ID); u != nil && u.recSeq == 0 {
				u.recSeq = e.seq
			}
		case !e.out && (p.Type == wire.PUBACK || p.Type == wire.PUBCOMP):
			if u := cur(p.ID); u != nil && u.doneSeq == 0 {
				u.doneSeq = e.seq
			}
		}
	}
	// the resend of each connection: everything certainly pending at the dial,
	// once each, PUBLISH in first-appearance order, PUBREL for what had its PUBREL out
	resentOff, resentSeq := map[int]int{}, map[int]int64{}
	for _, e := range w.Trace {
		if e.Kind == "point" && e.Note == "connect.resent" {
			resentOff[e.Conn], resentSeq[e.Conn] = e.Off, e.Seq
		}
	}
	for ci, pk := range a.out {
		c := w.Conns[ci]
		end, done := resentOff[c.Idx]
		if !done || len(pk) == 0 {
			continue
		}
		seenIn := map[int]bool{}
		var lastFirst [3]int64
		for _, p := range pk[1:] {
			if p.Offset >= end {
				break
			}
			var u *idUse
			switch {
			case p.Type == wire.PUBLISH && p.QoS > 0:
				u = byMarker[markerOfTopic(p.Topic)]
			case p.Type == wire.PUBREL:
				for _, x := range uses[p.ID] {
					if x.first < c.DialSeq {
						u = x
					}
				}
			}
			if u == nil {
				continue
			}
			if seenIn[u.n] {
				a.violate("C05", "resent-twice", "conn %d: message %d appears twice in the resend", c.Idx, u.n)
			}
			seenIn[u.n] = true
			lvl := a.pubs[u.n].pub.Level
			if u.first < lastFirst[lvl] {
				a.violate("C05", "resend-out-of-order", "conn %d level %d: message %d resent after a message that first appeared later", c.Idx, lvl, u.n)
			}
			lastFirst[lvl] = u.first
			if u.relSeq != 0 && u.relSeq < c.DialSeq && p.Type == wire.PUBLISH {
				a.violate("C03", "publish-after-pubrel", "conn %d: message %d resent as PUBLISH although its PUBREL went out before", c.Idx, u.n)
			}
		}
		for n, u := range byMarker {
			pi := a.pubs[n]
			if pi == nil || !pi.pub.Accepted() || pi.pub.RetSeq > c.DialSeq || u.first > c.DialSeq {
				continue
			}
			// certainly pending: no final acknowledgement bytes were handed over before the resend ended
			if (u.doneSeq == 0 || u.doneSeq > resentSeq[c.Idx]) && !seenIn[n] {
				a.violate("C01", "pending-not-resent", "conn %d: connect completed its resend without message %d, which was on the wire before and had no final acknowledgement", c.Idx, n)
				a.violate("C05", "pending-not-resent", "conn %d: connect completed its resend without message %d, which was on the wire before and had no final acknowledgement", c.Idx, n)
			}
		}
	}

	delivered := map[int]int{}
	for _, d := range w.Broker.State.Deliveries {
		delivered[markerOfTopic(d.Topic)]++
	}
	for _, pi := range a.pubs {
		p := pi.pub
		if !p.Accepted() {
			if p.RetSeq != 0 && byMarker[p.N] != nil {
				a.violate("C14", "refused-publish-on-wire", "publish %d returned %q yet a connection carries it", p.N, p.Err)
			}
			continue
		}
		u := byMarker[p.N]
		if p.ClosedSeq != 0 && (u == nil || u.doneSeq == 0 || u.doneSeq > p.ClosedSeq) {
			a.violate("C01", "exchange-closed-without-final-ack", "exchange of message %d closed at #%d without its final acknowledgement delivered before", p.N, p.ClosedSeq)
		}
		if p.Level == 2 && delivered[p.N] > 1 {
			a.violate("C03", "exactly-once-delivered-twice", "exactly-once message %d was forwarded %d times by the broker", p.N, delivered[p.N])
		}
		if final {
			if p.ClosedSeq == 0 {
				a.violate("C01", "exchange-never-closed", "exchange of accepted message %d (level %d) still open at idle after faults stopped", p.N, p.Level)
			}
			if delivered[p.N] == 0 {
				a.violate("C01", "accepted-never-delivered", "accepted message %d never reached the broker in full", p.N)
			}
		}
	}
	return a
}

// Adopt replaces the client by an adopted one on the same world.
func (ep *Episode) Adopt() (warn []error, fatal error) {
	cfg := ep.Cfg
	cfg.Dialer = ep.W.Dialer()
	cl, warn, fatal := mqtt.AdoptSession(ep.W.Store, &cfg)
	if fatal != nil {
		return warn, fatal
	}
	ep.D = sim.NewDriver(ep.W, cl, &ep.Marker, ep.D.Gen+1)
	return warn, nil
}

// awaitOrDiagnose waits for cond; when it does not arrive the world is
// diagnosed. It returns "" on success, "wedged" or "slow".
func (ep *Episode) awaitOrDiagnose(what string, cond func() bool) (string, string) {
	ep.W.Mu.Lock()
	dials0 := ep.W.Dials
	ep.W.Mu.Unlock()
	if ep.W.WaitUntil(sim.StepTimeout, cond) {
		return "", ""
	}
	ep.W.Mu.Lock()
	dials1 := ep.W.Dials
	ep.W.Mu.Unlock()
	if dials1-dials0 > 200 {
		// faults are over, yet the client goes from connection to connection
		// without getting anywhere: that is no slowness
		return "wedged", fmt.Sprintf("%s\nthe client dialled %d times within the watchdog without reaching the condition (reconnect loop)", what, dials1-dials0)
	}
	for i := 0; i < 4; i++ {
		wedged, report := ep.W.Diagnose(1500 * time.Millisecond)
		if ep.W.WaitUntil(time.Millisecond, cond) {
			return "", ""
		}
		if wedged {
			return "wedged", what + "\n" + report
		}
	}
	_, report := ep.W.Diagnose(100 * time.Millisecond)
	return "slow", what + "\n" + report
}

// ---- trace analysis of the persisted publishes ----

type savedRec struct {
	op     sim.StoreOp
	packet []byte // without trailer
	pub    *sim.Pub
	rel    bool
}

type pubInfo struct {
	pub     *sim.Pub
	key     uint
	save    *sim.StoreOp // successful Save of the PUBLISH
	saveTry *sim.StoreOp // any Save attempt
	relSave *sim.StoreOp // successful Save of the PUBREL
	del     *sim.StoreOp // successful Delete
	stored  []byte       // the PUBLISH packet as stored
	ord     int          // position in the save order of its level
}

type pubAnalysis struct {
	ep    *Episode
	pubs  map[int]*pubInfo // by marker number
	byKey map[uint][]*pubInfo
	order [3][]*pubInfo    // by level, in order of the first Save attempt
	out   [][]*wire.Packet // per connection
	in    [][]*wire.Packet
	viol  []pv
}

type pv struct {
	prop, sig, msg string
}

func (a *pubAnalysis) violate(prop, sig, format string, args ...any) {
	a.viol = append(a.viol, pv{prop, sig, fmt.Sprintf(format, args...)})
}

func markerOfTopic(topic string) int {
	// t/<level>/<n>
	parts := strings.Split(topic, "/")
	if len(parts) != 3 || parts[0] != "t" {
		return 0
	}
	n, _ := strconv.Atoi(parts[2])
	return n
}

func stripTrailer(raw []byte) []byte {
	if len(raw) < 12 {
		return nil
	}
	return raw[:len(raw)-12]
}

// ownerAt returns the publish that owns the key at logical time t.
func (a *pubAnalysis) ownerAt(key uint, t int64) *pubInfo {
	var best *pubInfo
	for _, pi := range a.byKey[key] {
		if pi.saveTry != nil && pi.saveTry.CallSeq <= t {
			if best == nil || pi.saveTry.CallSeq > best.saveTry.CallSeq {
				best = pi
			}
		}
	}
	return best
}

// analyzePubs runs the oracles shared by C01, C03 and C05 over the trace of
// an episode that reached idle after the faults stopped (final true), or of an
// episode cut short.
func analyzePubs(ep *Episode, allPubs []*sim.Pub, final bool) *pubAnalysis {
	w := ep.W
	w.Mu.Lock()
	defer w.Mu.Unlock()
	a := &pubAnalysis{ep: ep, pubs: map[int]*pubInfo{}, byKey: map[uint][]*pubInfo{}}
	for _, p := range allPubs {
		a.pubs[p.N] = &pubInfo{pub: p}
	}

	// store log
	ops := w.Store.Ops
	for i := range ops {
		op := &ops[i]
		if op.Key < 0x8000 || op.Key > 0xffff {
			continue
		}
		switch op.Op {
		case "save":
			pkt, err := wire.Decode(stripTrailer(op.Value), true)
			if err != nil {
				a.violate("C15", "stored-value-undecodable", "Save(%#x) got a value that does not decode: %v", op.Key, err)
				continue
			}
			switch pkt.Type {
			case wire.PUBLISH:
				pi := a.pubs[markerOfTopic(pkt.Topic)]
				if pi == nil {
					a.violate("C01", "save-of-unknown-message", "Save(%#x) of a PUBLISH nobody issued: %s", op.Key, pkt)
					continue
				}
				if uint(pkt.ID) != op.Key {
					a.violate("C17", "key-identifier-mismatch", "Save(%#x) holds PUBLISH with identifier %#x", op.Key, pkt.ID)
				}
				if pi.saveTry == nil {
					pi.saveTry = op
					pi.key = op.Key
					a.byKey[op.Key] = append(a.byKey[op.Key], pi)
					pi.ord = len(a.order[pi.pub.Level])
					a.order[pi.pub.Level] = append(a.order[pi.pub.Level], pi)
				}
				if !op.Err && pi.save == nil {
					pi.save = op
					pi.stored = stripTrailer(op.Value)
				}
			case wire.PUBREL:
				if op.Err {
					continue
				}
				pi := a.ownerAt(op.Key, op.CallSeq)
				if pi == nil {
					a.violate("C03", "pubrel-saved-for-unknown", "Save(%#x) of a PUBREL without a PUBLISH record before", op.Key)
					continue
				}
				if pi.relSave == nil {
					pi.relSave = op
				}
			default:
				a.violate("C01", "save-of-foreign-packet", "Save(%#x) of %s", op.Key, pkt)
			}
		case "delete":
			if op.Err {
				continue
			}
			pi := a.ownerAt(op.Key, op.CallSeq)
			if pi == nil {
				a.violate("C01", "delete-of-unknown-record", "Delete(%#x) without a record saved before", op.Key)
				continue
			}
			if pi.del != nil {
				a.violate("C01", "double-delete", "Delete(%#x) twice for message %d", op.Key, pi.pub.N)
				continue
			}
			pi.del = op
		}
	}

	// an identifier is not given to another message while still in use
	for key, owners := range a.byKey {
		for i, pi := range owners {
			if pi.save == nil {
				continue
			}
			for _, prev := range owners[:i] {
				if prev.save != nil && (prev.del == nil || prev.del.RetSeq > pi.save.CallSeq) {
					prop := "C17"
					if pi.pub.Level == 2 {
						prop = "C03"
					}
					a.violate(prop, "identifier-reused-in-flight", "record %#x was given to message %d at #%d while message %d still held it", key, pi.pub.N, pi.save.CallSeq, prev.pub.N)
					a.violate("C17", "identifier-reused-in-flight", "record %#x was given to message %d at #%d while message %d still held it", key, pi.pub.N, pi.save.CallSeq, prev.pub.N)
				}
			}
		}
	}

	// wire logs
	for _, c := range w.Conns {
		pk, _, err := wire.ParseStream(c.Out, true)
		if err != nil {
			a.violate("C08", "malformed-outbound-stream", "conn %d: %v", c.Idx, err)
		}
		a.out = append(a.out, pk)
		ik, _, _ := wire.ParseStream(c.In[:c.InPos], false)
		a.in = append(a.in, ik)
	}

	// final acknowledgements delivered to the client: (id, time)
	type ackAt struct {
		id  uint16
		seq int64
	}
	var finals []ackAt
	for ci, pk := range a.in {
		c := w.Conns[ci]
		for _, p := range pk {
			if p.Type == wire.PUBACK || p.Type == wire.PUBCOMP {
				finals = append(finals, ackAt{p.ID, c.SeqOfIn(p.Offset + len(p.Raw))})
			}
		}
	}
	finalsByID := map[uint16][]int64{}
	for _, f := range finals {
		finalsByID[f.id] = append(finalsByID[f.id], f.seq)
	}
	finalBetween := func(id uint16, from, to int64) bool {
		for _, seq := range finalsByID[id] {
			if seq > from && seq < to {
				return true
			}
		}
		return false
	}

	// deliveries per marker
	delivered := map[int]int{}
	for _, d := range w.Broker.State.Deliveries {
		delivered[markerOfTopic(d.Topic)]++
	}

	// markers of the PUBLISH packets on the wire, per connection
	onWire := map[int][]int{}
	for ci, pk := range a.out {
		for _, q := range pk {
			if q.Type == wire.PUBLISH {
				n := markerOfTopic(q.Topic)
				if l := onWire[n]; len(l) == 0 || l[len(l)-1] != ci+1 {
					onWire[n] = append(onWire[n], ci+1)
				}
			}
		}
	}

	for _, pi := range a.pubs {
		p := pi.pub
		// (4) a refused publish leaves no trace
		if p.RetSeq != 0 && p.Err != nil {
			if pi.save != nil {
				a.violate("C01", "refused-publish-persisted", "publish %d returned %q yet its Save took effect", p.N, p.Err)
				a.violate("C02", "refused-publish-stays-resumable", "publish %d returned %q yet its record stays in the Persistence: a restart resumes a message that was never accepted", p.N, p.Err)
			}
			for _, ci := range onWire[p.N] {
				a.violate("C14", "refused-publish-on-wire", "publish %d returned %q yet conn %d carries it", p.N, p.Err, ci)
			}
			continue
		}
		if !p.Accepted() {
			continue
		}
		if pi.save == nil {
			a.violate("C01", "accepted-without-save", "publish %d was accepted without a successful Save", p.N)
			continue
		}
		wantType := byte(wire.PUBACK)
		if p.Level == 2 {
			wantType = wire.PUBCOMP
		}
		_ = wantType
		// (2) record leaves only after the final acknowledgement
		if pi.del != nil {
			if !finalBetween(uint16(pi.key), pi.save.RetSeq, pi.del.CallSeq) {
				a.violate("C01", "record-removed-without-final-ack", "record %#x of message %d (level %d) was deleted at #%d without its final acknowledgement delivered after the save at #%d", pi.key, p.N, p.Level, pi.del.CallSeq, pi.save.RetSeq)
			}
			if p.Level == 2 && pi.relSave == nil {
				a.violate("C03", "completed-without-pubrel-record", "exactly-once message %d completed without a PUBREL record", p.N)
			}
		}
		// (1) exchange closes only after the removal
		if p.ClosedSeq != 0 {
			if pi.del == nil {
				a.violate("C01", "exchange-closed-with-record-present", "exchange of message %d closed at #%d while its record %#x was never removed", p.N, p.ClosedSeq, pi.key)
			} else if pi.del.RetSeq > p.ClosedSeq {
				a.violate("C01", "exchange-closed-before-removal", "exchange of message %d closed at #%d before Delete returned at #%d", p.N, p.ClosedSeq, pi.del.RetSeq)
			}
			if delivered[p.N] == 0 {
				a.violate("C01", "completed-never-delivered", "message %d completed while the broker never got its PUBLISH in full", p.N)
			}
		}
		// (5) bounded progress
		if final {
			// (the exchange of an earlier generation went away with its process;
			// completion shows in the removal of the record and the delivery)
			if p.ClosedSeq == 0 && p.Gen == ep.D.Gen {
				closedErr := false
				for _, x := range p.XErrs {
					if errors.Is(x.Err, mqtt.ErrClosed) {
						closedErr = true
					}
				}
				if !closedErr {
					a.violate("C01", "exchange-never-closed", "exchange of accepted message %d (level %d, key %#x) still open at idle after faults stopped", p.N, p.Level, pi.key)
				}
			}
			if delivered[p.N] == 0 {
				a.violate("C01", "accepted-never-delivered", "accepted message %d never reached the broker in full", p.N)
			}
			if p.Level == 2 && delivered[p.N] > 1 {
				a.violate("C03", "exactly-once-delivered-twice", "exactly-once message %d was forwarded %d times by the broker", p.N, delivered[p.N])
			}
		}
		if p.Level == 2 && delivered[p.N] > 1 {
			a.violate("C03", "exactly-once-delivered-twice", "exactly-once message %d was forwarded %d times by the broker", p.N, delivered[p.N])
		}
	}
	if final {
		for k := range w.Store.CurrentLocked() {
			if k >= 0x8000 && k <= 0xffff {
				a.violate("C01", "record-left-at-idle", "record %#x still stored at idle after faults stopped", k)
			}
		}
	}

	a.checkWire()
	return a
}

// pktPub maps an outbound packet to its message.
func (a *pubAnalysis) pktPub(c *sim.Conn, p *wire.Packet) *pubInfo {
	switch p.Type {
	case wire.PUBLISH:
		return a.pubs[markerOfTopic(p.Topic)]
	case wire.PUBREL:
		return a.ownerAt(uint(p.ID), c.SeqOfOut(p.Offset+1))
	}
	return nil
}

// checkWire applies the per-connection oracles: resend completeness and
// order, DUP, no PUBLISH after the PUBREL record, first appearances.
func (a *pubAnalysis) checkWire() {
	w := a.ep.W
	// hook events per connection
	dialed := map[int]int64{}
	resentSeq := map[int]int64{}
	resentOff := map[int]int{}
	for _, e := range w.Trace {
		if e.Kind != "point" {
			continue
		}
		switch e.Note {
		case "connect.dialed":
			dialed[e.Conn] = e.Seq
		case "connect.resent":
			resentSeq[e.Conn] = e.Seq
			resentOff[e.Conn] = e.Off
		}
	}

	// complete earlier writes per message and generation, for the DUP rule
	type wr struct {
		seq      int64 // time of the last byte
		complete bool
		gen      int
	}
	writes := map[int][]wr{}
	var adopts []sim.Event
	for _, e := range w.Trace {
		if e.Kind == "adopt" {
			adopts = append(adopts, e)
		}
	}
	genAt := func(seq int64) int {
		g := 0
		for _, e := range adopts {
			if e.Seq <= seq {
				g = e.N
			}
		}
		return g
	}

	// A Write call that failed without accepting a byte right at the end of a
	// packet leaves the caller unable to know that the packet was complete
	// (empty payload buffer written after the header): either DUP value.
	type connOff struct{ conn, off int }
	failedAt := map[connOff]bool{}
	for _, e := range w.Trace {
		if e.Kind == "write" && e.Err != "" && e.N == 0 {
			failedAt[connOff{e.Conn, e.Off}] = true
		}
	}

	firstSeen := map[int]bool{}
	var firstOrder [3][]*pubInfo

	for ci, pk := range a.out {
		c := w.Conns[ci]
		if len(pk) == 0 {
			continue
		}
		if pk[0].Type != wire.CONNECT {
			a.violate("C18", "first-packet-not-connect", "conn %d starts with %s", c.Idx, pk[0])
			continue
		}
		regionEnd, haveEnd := resentOff[c.Idx]
		tDialed := dialed[c.Idx]
		var region []*wire.Packet
		for _, p := range pk[1:] {
			if haveEnd && p.Offset >= regionEnd {
				break
			}
			if !haveEnd && p.Type != wire.PUBLISH && p.Type != wire.PUBREL {
				break
			}
			region = append(region, p)
		}
		if tDialed != 0 && (haveEnd || c.OutFaults > 0 || c.Closed()) {
			a.checkResend(c, region, tDialed, resentSeq[c.Idx], haveEnd)
		}

		// all PUBLISH/PUBREL on this connection
		for _, p := range pk[1:] {
			if p.Type != wire.PUBLISH && p.Type != wire.PUBREL {
				continue
			}
			pi := a.pktPub(c, p)
			if pi == nil {
				a.violate("C01", "unknown-packet-on-wire", "conn %d carries %s which matches no message", c.Idx, p)
				continue
			}
			start := c.SeqOfOut(p.Offset + 1)
			end := c.SeqOfOut(p.Offset + len(p.Raw))
			if p.Type == wire.PUBREL {
				if pi.relSave == nil || pi.relSave.RetSeq > start {
					a.violate("C03", "pubrel-before-record", "conn %d: PUBREL %#x written at #%d before its record was saved", c.Idx, p.ID, start)
				}
				continue
			}
			// PUBLISH
			if p.QoS == 0 {
				continue
			}
			if pi.stored != nil {
				want := append([]byte(nil), pi.stored...)
				got := append([]byte(nil), p.Raw...)
				want[0] &^= 8
				got[0] &^= 8
				if !bytes.Equal(want, got) {
					a.violate("C01", "wire-differs-from-record", "conn %d: PUBLISH of message %d differs from the stored record", c.Idx, pi.pub.N)
					// C05: DUP is all that marks a re-delivery
					a.violate("C05", "redelivery-differs-beyond-dup", "conn %d: the PUBLISH of message %d differs from what was accepted in more than the DUP flag (got first byte %#02x, stored %#02x)", c.Idx, pi.pub.N, p.Raw[0], pi.stored[0])
					a.violate("C03", "redelivery-differs-beyond-dup", "conn %d: the PUBLISH of message %d differs from what was accepted in more than the DUP flag", c.Idx, pi.pub.N)
				}
			}
			if uint(p.ID) != pi.key {
				a.violate("C17", "identifier-changed", "conn %d: message %d carries identifier %#x, stored under %#x", c.Idx, pi.pub.N, p.ID, pi.key)
			}
			// C03 (a): no PUBLISH after the PUBREL record
			if pi.relSave != nil && start > pi.relSave.RetSeq {
				a.violate("C03", "publish-after-pubrec-recorded", "conn %d: PUBLISH of exactly-once message %d written at #%d after its PUBREL record was saved at #%d", c.Idx, pi.pub.N, start, pi.relSave.RetSeq)
			}
			if pi.del != nil && start > pi.del.RetSeq {
				a.violate("C01", "publish-after-completion", "conn %d: PUBLISH of message %d written after its record was removed", c.Idx, pi.pub.N)
			}
			// C05: first appearances in acceptance order
			if !firstSeen[pi.pub.N] {
				firstSeen[pi.pub.N] = true
				firstOrder[p.QoS] = append(firstOrder[p.QoS], pi)
			}
			// C05: DUP
			g := genAt(start)
			prior, priorPartial := false, false
			for _, x := range writes[pi.pub.N] {
				if x.gen != g {
					prior, priorPartial = true, true // other generation: either
					continue
				}
				if x.complete {
					prior = true
				} else {
					priorPartial = true
				}
			}
			if pi.pub.Gen != g {
				priorPartial = true // resumed after restart: either value
			}
			switch {
			case p.Dup && !prior && !priorPartial:
				a.violate("C05", "dup-on-first-transmission", "conn %d: first transmission of message %d carries DUP", c.Idx, pi.pub.N)
			case !p.Dup && prior && !priorPartial:
				a.violate("C05", "retransmission-without-dup", "conn %d: retransmission of completely written message %d lacks DUP", c.Idx, pi.pub.N)
			}
			writes[pi.pub.N] = append(writes[pi.pub.N], wr{seq: end, complete: !failedAt[connOff{c.Idx, p.Offset + len(p.Raw)}], gen: g})
		}
		// an incomplete trailing PUBLISH counts as partial write
		used := 0
		if n := len(pk); n > 0 {
			used = pk[n-1].Offset + len(pk[n-1].Raw)
		}
		if rest := c.Out[used:]; len(rest) > 4 && rest[0]>>4 == wire.PUBLISH {
			if hl, _, err := wire.Header(rest); err == nil && len(rest) >= hl+2 {
				tl := int(rest[hl])<<8 | int(rest[hl+1])
				if len(rest) >= hl+2+tl {
					n := markerOfTopic(string(rest[hl+2 : hl+2+tl]))
					writes[n] = append(writes[n], wr{complete: false, gen: genAt(c.SeqOfOut(used + 1))})
				}
			} else {
				// cannot tell which: all pending get the benefit
				for n := range a.pubs {
					writes[n] = append(writes[n], wr{complete: false, gen: genAt(c.SeqOfOut(used + 1))})
				}
			}
		} else if len(rest) > 0 {
			for n := range a.pubs {
				writes[n] = append(writes[n], wr{complete: false, gen: genAt(c.SeqOfOut(used + 1))})
			}
		}
	}

	// C05: first appearance order equals save order, per level
	for q := 1; q <= 2; q++ {
		l := firstOrder[q]
		for i := 1; i < len(l); i++ {
			if l[i].saveTry != nil && l[i-1].saveTry != nil && l[i].saveTry.CallSeq < l[i-1].saveTry.CallSeq {
				a.violate("C05", "first-appearance-out-of-order", "level %d: message %d first appears on the wire after message %d though it was accepted before", q, l[i].pub.N, l[i-1].pub.N)
			}
		}
	}
}

// checkResend verifies the packets between CONNECT and the end of the resend
// against the pending set.
func (a *pubAnalysis) checkResend(c *sim.Conn, region []*wire.Packet, tDialed, tResent int64, complete bool) {
	pendingAt := func(pi *pubInfo) bool { return pi.del == nil || pi.del.RetSeq > tDialed }
	lo := map[int]*pubInfo{}
	for _, pi := range a.pubs {
		if pi.pub.Accepted() && pi.pub.RetSeq < tDialed && pi.save != nil && pendingAt(pi) {
			lo[pi.pub.N] = pi
		}
	}
	seen := map[int]bool{}
	var last [3]*pubInfo
	for _, p := range region {
		pi := a.pktPub(c, p)
		if pi == nil {
			continue // reported elsewhere
		}
		if seen[pi.pub.N] {
			a.violate("C05", "resent-twice", "conn %d: message %d appears twice in the resend", c.Idx, pi.pub.N)
		}
		seen[pi.pub.N] = true
		if !pendingAt(pi) {
			a.violate("C01", "resend-of-completed", "conn %d: resend contains message %d which was completed before", c.Idx, pi.pub.N)
		}
		if pi.saveTry != nil && tResent != 0 && pi.saveTry.CallSeq > tResent {
			a.violate("C05", "new-before-resend-end", "conn %d: message %d was saved after the resend ended yet sits inside it", c.Idx, pi.pub.N)
		}
		wantRel := pi.relSave != nil && pi.relSave.RetSeq < tDialed
		if wantRel != (p.Type == wire.PUBREL) {
			a.violate("C03", "resumed-at-wrong-stage", "conn %d: message %d resent as %s while PUBREL recorded=%v", c.Idx, pi.pub.N, wire.TypeName(p.Type), wantRel)
		}
		lvl := pi.pub.Level
		if prev := last[lvl]; prev != nil && prev.saveTry != nil && pi.saveTry != nil && prev.saveTry.CallSeq > pi.saveTry.CallSeq {
			a.violate("C05", "resend-out-of-order", "conn %d level %d: message %d resent after message %d though accepted before", c.Idx, lvl, pi.pub.N, prev.pub.N)
		}
		last[lvl] = pi
	}
	if complete {
		var missing []int
		for n := range lo {
			if !seen[n] {
				missing = append(missing, n)
			}
		}
		sort.Ints(missing)
		if len(missing) != 0 {
			a.violate("C01", "pending-not-resent", "conn %d: connect completed its resend without messages %v, accepted and unacknowledged before the dial", c.Idx, missing)
			a.violate("C05", "pending-not-resent", "conn %d: connect completed its resend without messages %v, accepted and unacknowledged before the dial", c.Idx, missing)
		}
	} else {
		// prefix: per level, nothing pending may be skipped before a resent one
		for _, pi := range lo {
			if seen[pi.pub.N] {
				continue
			}
			if l := last[pi.pub.Level]; l != nil && l.saveTry != nil && pi.saveTry != nil && l.saveTry.CallSeq > pi.saveTry.CallSeq {
				a.violate("C05", "resend-skipped", "conn %d level %d: message %d skipped while later message %d was resent", c.Idx, pi.pub.Level, pi.pub.N, l.pub.N)
			}
		}
	}
}
