// Package wire is an independent MQTT 3.1.1 codec, written from the OASIS
// text. It shares no code with the library under verification.
package wire

import (
	"errors"
	"fmt"
	"unicode/utf8"
)

// Packet types.
const (
	CONNECT     = 1
	CONNACK     = 2
	PUBLISH     = 3
	PUBACK      = 4
	PUBREC      = 5
	PUBREL      = 6
	PUBCOMP     = 7
	SUBSCRIBE   = 8
	SUBACK      = 9
	UNSUBSCRIBE = 10
	UNSUBACK    = 11
	PINGREQ     = 12
	PINGRESP    = 13
	DISCONNECT  = 14
)

var typeNames = [...]string{"RESERVED0", "CONNECT", "CONNACK", "PUBLISH", "PUBACK", "PUBREC", "PUBREL", "PUBCOMP", "SUBSCRIBE", "SUBACK", "UNSUBSCRIBE", "UNSUBACK", "PINGREQ", "PINGRESP", "DISCONNECT", "RESERVED15"}

// TypeName returns the mnemonic.
func TypeName(t byte) string { return typeNames[t&15] }

// Connect holds the CONNECT fields.
type Connect struct {
	ClientID     string
	CleanSession bool
	KeepAlive    uint16
	HasWill      bool
	WillTopic    string
	WillMessage  []byte
	WillQoS      byte
	WillRetain   bool
	HasUser      bool
	User         string
	HasPassword  bool
	Password     []byte
}

// Packet is a decoded control packet.
type Packet struct {
	Type   byte
	Flags  byte // low nibble of the first byte
	Dup    bool
	QoS    byte
	Retain bool
	ID     uint16
	Topic  string
	// Payload of a PUBLISH.
	Payload []byte
	Filters []string
	QoSs    []byte // requested levels of SUBSCRIBE
	Codes   []byte // SUBACK return codes
	Connect *Connect
	// CONNACK
	SessionPresent bool
	ReturnCode     byte

	Raw    []byte // the complete packet
	Offset int    // position in the stream
}

func (p *Packet) String() string {
	switch p.Type {
	case PUBLISH:
		return fmt.Sprintf("PUBLISH(q%d id=%#04x dup=%v ret=%v topic=%.20q len=%d)", p.QoS, p.ID, p.Dup, p.Retain, p.Topic, len(p.Payload))
	case PUBACK, PUBREC, PUBREL, PUBCOMP, UNSUBACK:
		return fmt.Sprintf("%s(%#04x)", TypeName(p.Type), p.ID)
	case SUBSCRIBE, UNSUBSCRIBE:
		return fmt.Sprintf("%s(%#04x %d filters)", TypeName(p.Type), p.ID, len(p.Filters))
	case SUBACK:
		return fmt.Sprintf("SUBACK(%#04x %x)", p.ID, p.Codes)
	case CONNACK:
		return fmt.Sprintf("CONNACK(sp=%v rc=%d)", p.SessionPresent, p.ReturnCode)
	}
	return TypeName(p.Type)
}

// ErrIncomplete means the buffer holds a true prefix of a packet.
var ErrIncomplete = errors.New("wire: incomplete packet")

// ValidString applies the rules of section 1.5.3.
func ValidString(s string) error {
	if len(s) > 65535 {
		return errors.New("string exceeds 65535 bytes")
	}
	for i := 0; i < len(s); {
		c := s[i]
		if c == 0 {
			return errors.New("string contains U+0000")
		}
		if c < 0x80 {
			i++
			continue
		}
		// decode by hand, conform RFC 3629
		var n int
		var min rune
		var r rune
		switch {
		case c&0xe0 == 0xc0:
			n, min, r = 2, 0x80, rune(c&0x1f)
		case c&0xf0 == 0xe0:
			n, min, r = 3, 0x800, rune(c&0x0f)
		case c&0xf8 == 0xf0:
			n, min, r = 4, 0x10000, rune(c&0x07)
		default:
			return errors.New("ill-formed UTF-8 (lead byte)")
		}
		if i+n > len(s) {
			return errors.New("ill-formed UTF-8 (truncated)")
		}
		for j := 1; j < n; j++ {
			b := s[i+j]
			if b&0xc0 != 0x80 {
				return errors.New("ill-formed UTF-8 (continuation)")
			}
			r = r<<6 | rune(b&0x3f)
		}
		if r < min {
			return errors.New("ill-formed UTF-8 (overlong)")
		}
		if r >= 0xd800 && r <= 0xdfff {
			return errors.New("ill-formed UTF-8 (surrogate)")
		}
		if r > 0x10ffff {
			return errors.New("ill-formed UTF-8 (beyond U+10FFFF)")
		}
		i += n
	}
	return nil
}

func init() {
	// cross-check of the hand decoder on a few values against the library
	for _, s := range []string{"a", "é", "€", "😀", "\xc0\x80", "\xed\xa0\x80", "\xf4\x90\x80\x80", "\xe2\x82"} {
		if (ValidString(s) == nil) != utf8.ValidString(s) {
			panic("wire: ValidString self-test failed on " + fmt.Sprintf("%q", s))
		}
	}
}

// Header decodes the fixed header. It returns the header length and the
// remaining length. ErrIncomplete when more bytes are needed.
func Header(b []byte) (hlen, remaining int, err error) {
	if len(b) < 2 {
		return 0, 0, ErrIncomplete
	}
	shift := uint(0)
	for i := 1; ; i++ {
		if i >= len(b) {
			if i > 4 {
				return 0, 0, errors.New("remaining length exceeds 4 bytes")
			}
			return 0, 0, ErrIncomplete
		}
		if i > 4 {
			return 0, 0, errors.New("remaining length exceeds 4 bytes")
		}
		remaining |= int(b[i]&0x7f) << shift
		if b[i]&0x80 == 0 {
			return i + 1, remaining, nil
		}
		shift += 7
	}
}

type rd struct {
	b   []byte
	err error
}

func (r *rd) u8() byte {
	if r.err != nil {
		return 0
	}
	if len(r.b) < 1 {
		r.err = errors.New("short packet body")
		return 0
	}
	v := r.b[0]
	r.b = r.b[1:]
	return v
}

func (r *rd) u16() uint16 {
	if r.err != nil {
		return 0
	}
	if len(r.b) < 2 {
		r.err = errors.New("short packet body")
		return 0
	}
	v := uint16(r.b[0])<<8 | uint16(r.b[1])
	r.b = r.b[2:]
	return v
}

func (r *rd) bytes() []byte {
	n := int(r.u16())
	if r.err != nil {
		return nil
	}
	if len(r.b) < n {
		r.err = errors.New("length prefix exceeds packet body")
		return nil
	}
	v := r.b[:n:n]
	r.b = r.b[n:]
	return v
}

func (r *rd) str() string {
	b := r.bytes()
	if r.err != nil {
		return ""
	}
	s := string(b)
	if err := ValidString(s); err != nil {
		r.err = err
	}
	return s
}

// Decode parses one packet from the start of b. FromClient selects which flag
// rules and which packet types are legal. The error is ErrIncomplete when b is
// a true prefix.
func Decode(b []byte, fromClient bool) (*Packet, error) {
	hlen, remaining, err := Header(b)
	if err != nil {
		return nil, err
	}
	if len(b) < hlen+remaining {
		return nil, ErrIncomplete
	}
	p := &Packet{Type: b[0] >> 4, Flags: b[0] & 15, Raw: b[: hlen+remaining : hlen+remaining]}
	r := &rd{b: b[hlen : hlen+remaining]}

	wantFlags := byte(0)
	switch p.Type {
	case PUBREL, SUBSCRIBE, UNSUBSCRIBE:
		wantFlags = 2
	}
	if p.Type != PUBLISH && p.Flags != wantFlags {
		return p, fmt.Errorf("%s with flags %#b, want %#b", TypeName(p.Type), p.Flags, wantFlags)
	}

	clientOnly := p.Type == CONNECT || p.Type == SUBSCRIBE || p.Type == UNSUBSCRIBE || p.Type == PINGREQ || p.Type == DISCONNECT
	brokerOnly := p.Type == CONNACK || p.Type == SUBACK || p.Type == UNSUBACK || p.Type == PINGRESP
	if fromClient && brokerOnly || !fromClient && clientOnly {
		return p, fmt.Errorf("%s from the wrong side", TypeName(p.Type))
	}

	switch p.Type {
	default:
		return p, fmt.Errorf("reserved packet type %d", p.Type)

	case CONNECT:
		c := &Connect{}
		p.Connect = c
		if name := r.bytes(); r.err == nil && string(name) != "MQTT" {
			return p, fmt.Errorf("protocol name %q", name)
		}
		if lvl := r.u8(); r.err == nil && lvl != 4 {
			return p, fmt.Errorf("protocol level %d", lvl)
		}
		flags := r.u8()
		c.KeepAlive = r.u16()
		if r.err != nil {
			return p, r.err
		}
		if flags&1 != 0 {
			return p, errors.New("CONNECT reserved flag set")
		}
		c.CleanSession = flags&2 != 0
		c.HasWill = flags&4 != 0
		c.WillQoS = flags >> 3 & 3
		c.WillRetain = flags&0x20 != 0
		c.HasPassword = flags&0x40 != 0
		c.HasUser = flags&0x80 != 0
		if !c.HasWill && (c.WillQoS != 0 || c.WillRetain) {
			return p, errors.New("CONNECT will flags without will")
		}
		if c.WillQoS == 3 {
			return p, errors.New("CONNECT will QoS 3")
		}
		if c.HasPassword && !c.HasUser {
			return p, errors.New("CONNECT password without user name")
		}
		c.ClientID = r.str()
		if c.HasWill {
			c.WillTopic = r.str()
			c.WillMessage = r.bytes()
			if r.err == nil && c.WillTopic == "" {
				return p, errors.New("CONNECT empty will topic")
			}
		}
		if c.HasUser {
			c.User = r.str()
		}
		if c.HasPassword {
			c.Password = r.bytes()
		}

	case CONNACK:
		f := r.u8()
		p.ReturnCode = r.u8()
		if r.err == nil && f&^1 != 0 {
			return p, errors.New("CONNACK reserved flags")
		}
		p.SessionPresent = f&1 != 0

	case PUBLISH:
		p.Dup = p.Flags&8 != 0
		p.QoS = p.Flags >> 1 & 3
		p.Retain = p.Flags&1 != 0
		if p.QoS == 3 {
			return p, errors.New("PUBLISH QoS 3")
		}
		if p.QoS == 0 && p.Dup {
			return p, errors.New("PUBLISH QoS 0 with DUP")
		}
		p.Topic = r.str()
		if r.err == nil && p.Topic == "" {
			return p, errors.New("PUBLISH empty topic")
		}
		if p.QoS != 0 {
			p.ID = r.u16()
			if r.err == nil && p.ID == 0 {
				return p, errors.New("PUBLISH packet identifier zero")
			}
		}
		if r.err != nil {
			return p, r.err
		}
		p.Payload = r.b
		r.b = nil

	case PUBACK, PUBREC, PUBREL, PUBCOMP, UNSUBACK:
		p.ID = r.u16()
		if r.err == nil && p.ID == 0 {
			return p, fmt.Errorf("%s packet identifier zero", TypeName(p.Type))
		}

	case SUBSCRIBE:
		p.ID = r.u16()
		if r.err == nil && p.ID == 0 {
			return p, errors.New("SUBSCRIBE packet identifier zero")
		}
		for r.err == nil && len(r.b) != 0 {
			f := r.str()
			q := r.u8()
			if r.err != nil {
				break
			}
			if f == "" {
				return p, errors.New("SUBSCRIBE empty filter")
			}
			if q > 2 {
				return p, fmt.Errorf("SUBSCRIBE requested QoS %d", q)
			}
			p.Filters = append(p.Filters, f)
			p.QoSs = append(p.QoSs, q)
		}
		if r.err == nil && len(p.Filters) == 0 {
			return p, errors.New("SUBSCRIBE without filters")
		}

	case UNSUBSCRIBE:
		p.ID = r.u16()
		if r.err == nil && p.ID == 0 {
			return p, errors.New("UNSUBSCRIBE packet identifier zero")
		}
		for r.err == nil && len(r.b) != 0 {
			f := r.str()
			if r.err != nil {
				break
			}
			if f == "" {
				return p, errors.New("UNSUBSCRIBE empty filter")
			}
			p.Filters = append(p.Filters, f)
		}
		if r.err == nil && len(p.Filters) == 0 {
			return p, errors.New("UNSUBSCRIBE without filters")
		}

	case SUBACK:
		p.ID = r.u16()
		if r.err == nil && p.ID == 0 {
			return p, errors.New("SUBACK packet identifier zero")
		}
		p.Codes = r.b
		r.b = nil
		for _, c := range p.Codes {
			if c > 2 && c != 0x80 {
				return p, fmt.Errorf("SUBACK return code %#x", c)
			}
		}
		if r.err == nil && len(p.Codes) == 0 {
			return p, errors.New("SUBACK without return codes")
		}

	case PINGREQ, PINGRESP, DISCONNECT:
	}
	if r.err != nil {
		return p, r.err
	}
	if len(r.b) != 0 {
		return p, fmt.Errorf("%s with %d trailing bytes", TypeName(p.Type), len(r.b))
	}
	return p, nil
}

// ParseStream splits a byte log into packets. Rest is the trailing fragment
// (a true prefix of a packet, or the bytes from the first malformed packet on
// when err is not nil).
func ParseStream(b []byte, fromClient bool) (pkts []*Packet, rest []byte, err error) {
	off := 0
	for off < len(b) {
		p, e := Decode(b[off:], fromClient)
		if e == ErrIncomplete {
			return pkts, b[off:], nil
		}
		if e != nil {
			return pkts, b[off:], fmt.Errorf("offset %d: %w", off, e)
		}
		p.Offset = off
		pkts = append(pkts, p)
		off += len(p.Raw)
	}
	return pkts, nil, nil
}

// AppendLen appends the remaining-length encoding.
func AppendLen(b []byte, n int) []byte {
	for ; n > 0x7f; n >>= 7 {
		b = append(b, byte(n)|0x80)
	}
	return append(b, byte(n))
}

// Connack encodes.
func Connack(sessionPresent bool, code byte) []byte {
	f := byte(0)
	if sessionPresent {
		f = 1
	}
	return []byte{CONNACK << 4, 2, f, code}
}

// Ack encodes PUBACK, PUBREC, PUBREL, PUBCOMP or UNSUBACK.
func Ack(typ byte, id uint16) []byte {
	h := typ << 4
	if typ == PUBREL {
		h |= 2
	}
	return []byte{h, 2, byte(id >> 8), byte(id)}
}

// Suback encodes.
func Suback(id uint16, codes ...byte) []byte {
	b := []byte{SUBACK << 4}
	b = AppendLen(b, 2+len(codes))
	b = append(b, byte(id>>8), byte(id))
	return append(b, codes...)
}

// Pingresp encodes.
func Pingresp() []byte { return []byte{PINGRESP << 4, 0} }

// Publish encodes a PUBLISH as a broker (or client) would.
func Publish(topic string, payload []byte, qos byte, id uint16, dup, retain bool) []byte {
	h := byte(PUBLISH<<4) | qos<<1
	if dup {
		h |= 8
	}
	if retain {
		h |= 1
	}
	n := 2 + len(topic) + len(payload)
	if qos != 0 {
		n += 2
	}
	b := make([]byte, 0, n+5)
	b = append(b, h)
	b = AppendLen(b, n)
	b = append(b, byte(len(topic)>>8), byte(len(topic)))
	b = append(b, topic...)
	if qos != 0 {
		b = append(b, byte(id>>8), byte(id))
	}
	return append(b, payload...)
}

// EncodeConnect is the reference encoding of a CONNECT.
func EncodeConnect(c *Connect) []byte {
	var flags byte
	body := []byte{0, 4, 'M', 'Q', 'T', 'T', 4, 0, byte(c.KeepAlive >> 8), byte(c.KeepAlive)}
	app := func(s []byte) {
		body = append(body, byte(len(s)>>8), byte(len(s)))
		body = append(body, s...)
	}
	app([]byte(c.ClientID))
	if c.CleanSession {
		flags |= 2
	}
	if c.HasWill {
		flags |= 4 | c.WillQoS<<3
		if c.WillRetain {
			flags |= 0x20
		}
		app([]byte(c.WillTopic))
		app(c.WillMessage)
	}
	if c.HasUser {
		flags |= 0x80
		app([]byte(c.User))
	}
	if c.HasPassword {
		flags |= 0x40
		app(c.Password)
	}
	body[7] = flags
	b := []byte{CONNECT << 4}
	b = AppendLen(b, len(body))
	return append(b, body...)
}
