// Command fskill is the child process of the C19 monitors: it applies a
// scripted sequence of Save/Delete operations to mqtt.FileSystem on one locked
// OS thread, or verifies a directory from a fresh process.
//
//	fskill run <dir> <script.json> [-fsize <bytes> -at <op index>]
//	fskill verify <dir>
//
// run prints "BEGIN <i>" and "END <i> <error|ok>" around each operation on
// standard output (a pipe, so that the lines are not subject to the file size
// limit). verify prints one JSON object with List and Load of every listed key.
package main

import (
	"crypto/sha256"
	"encoding/json"
	"fmt"
	"net"
	"os"
	"runtime"
	"sort"
	"strconv"
	"syscall"

	"github.com/pascaldekloe/mqtt"

	"verif/fsops"
)

func main() {
	if len(os.Args) < 3 {
		fmt.Fprintln(os.Stderr, "usage: fskill run|verify <dir> …")
		os.Exit(2)
	}
	switch os.Args[1] {
	case "run":
		runScript()
	case "verify":
		verify(os.Args[2])
	default:
		os.Exit(2)
	}
}

func runScript() {
	runtime.LockOSThread()
	dir := os.Args[2]
	raw, err := os.ReadFile(os.Args[3])
	if err != nil {
		fmt.Fprintln(os.Stderr, err)
		os.Exit(2)
	}
	var ops []fsops.Op
	if err := json.Unmarshal(raw, &ops); err != nil {
		fmt.Fprintln(os.Stderr, err)
		os.Exit(2)
	}
	fsize, at := int64(-1), -1
	for i := 4; i+1 < len(os.Args); i += 2 {
		n, _ := strconv.ParseInt(os.Args[i+1], 10, 64)
		switch os.Args[i] {
		case "-fsize":
			fsize = n
		case "-at":
			at = int(n)
		}
	}
	// values are prepared up front: no allocation noise between the file calls
	vals := make([]net.Buffers, len(ops))
	for i, o := range ops {
		if o.Op == "save" {
			vals[i] = fsops.Value(o)
		}
	}
	store := mqtt.FileSystem(dir)
	out := os.NewFile(1, "stdout")
	for i, o := range ops {
		if i == at && fsize >= 0 {
			lim := syscall.Rlimit{Cur: uint64(fsize), Max: uint64(fsize)}
			if err := syscall.Setrlimit(syscall.RLIMIT_FSIZE, &lim); err != nil {
				fmt.Fprintln(os.Stderr, "setrlimit:", err)
				os.Exit(2)
			}
		}
		fmt.Fprintf(out, "BEGIN %d\n", i)
		var err error
		switch o.Op {
		case "save":
			err = store.Save(o.Key, vals[i])
		case "delete":
			err = store.Delete(o.Key)
		}
		if err != nil {
			fmt.Fprintf(out, "END %d error %q\n", i, err.Error())
		} else {
			fmt.Fprintf(out, "END %d ok\n", i)
		}
		if i == at && fsize >= 0 {
			// the limit can not be raised again; later operations stay under it
		}
	}
}

func verify(dir string) {
	store := mqtt.FileSystem(dir)
	keys, err := store.List()
	var res fsops.Verdict
	if err != nil {
		res.ListError = err.Error()
	}
	sort.Slice(keys, func(i, j int) bool { return keys[i] < keys[j] })
	var entries []fsops.Entry
	for _, k := range keys {
		e := fsops.Entry{Key: k}
		v, err := store.Load(k)
		switch {
		case err != nil:
			e.Err = err.Error()
		case v == nil:
			e.Absent = true
		default:
			e.Len = len(v)
			e.Sum = fmt.Sprintf("%x", sha256.Sum256(v))
		}
		entries = append(entries, e)
	}
	res.Entries = entries
	// what lies in the directory besides
	names, _ := os.ReadDir(dir)
	var files []string
	for _, n := range names {
		files = append(files, n.Name())
	}
	res.Files = files
	json.NewEncoder(os.Stdout).Encode(res)
}
