// Command verifcheck runs the runtime monitors of one property.
package main

import (
	"flag"
	"fmt"
	"os"
	"strconv"

	_ "verif/props"
	"verif/run"
)

func main() {
	prop := flag.String("prop", "", "property identifier")
	tier := flag.String("tier", "quick", "quick or thorough")
	seed := flag.Int64("seed", 0, "seed; defaults to VERIF_SEED or 1")
	child := flag.Bool("child", false, "run as a child process")
	from := flag.Int("from", 0, "first case")
	to := flag.Int("to", 0, "case limit")
	out := flag.String("out", "", "result file of the child")
	replay := flag.String("replay", "", "replay file")
	one := flag.Int("one", -1, "run a single case verbosely")
	flag.Parse()
	if r := os.Getenv("VERIF_ROOT"); r != "" {
		run.Root = r
	}

	if *seed == 0 {
		*seed = 1
		if s := os.Getenv("VERIF_SEED"); s != "" {
			if n, err := strconv.ParseInt(s, 10, 64); err == nil && n != 0 {
				*seed = n
			}
		}
	}
	switch {
	case *child:
		os.Exit(run.Child(*prop, *tier, *seed, *from, *to, *out))
	case *replay != "":
		os.Exit(run.Replay(*prop, *replay))
	case *one >= 0:
		os.Exit(run.One(*prop, *tier, *seed, *one))
	}
	self, err := os.Executable()
	if err != nil {
		fmt.Println("HARNESS-ERROR", err)
		os.Exit(2)
	}
	os.Exit(run.Main(*prop, *tier, *seed, self))
}
