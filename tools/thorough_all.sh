#!/bin/bash
# Runs every registered thorough check once (sequentially) and prints verdict and time; for background sweeps.
cd "$(dirname "$0")/.."
for id in $(python3 -c "import json;print(' '.join(c['property_id'] for c in json.load(open('MANIFEST.json'))['checks']))"); do
  t0=$(date +%s)
  timeout 7200 ./check $id thorough > /tmp/thorough-$id.out 2>&1
  echo "$id exit=$? $(( $(date +%s) - t0 ))s $(tail -1 /tmp/thorough-$id.out)"
  grep -A1 "^VIOLATION\|^HARNESS" /tmp/thorough-$id.out | cut -c1-300
done
