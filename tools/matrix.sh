#!/bin/bash
# usage: matrix.sh <out.tsv> [all|target] [seed dirs…]
# Runs checks against every seeded change on SCRATCH copies (never /repo, never /verif): the copy of
# the repository at HEAD gets the patch, the copy of /verif runs `check <ID> quick` with VERIF_REPO.
# MX_CHECKS="C10 C13" overrides the list of checks. "target" runs only the property the change is meant to break (reverts: the property of the fixed:
# entry); "all" runs every check. One line per (change, check): caught / held / error + first signature.
export GOFLAGS=-mod=mod GOPROXY=off GOSUMDB=off GOTOOLCHAIN=local
OUT=${1:-/tmp/matrix.tsv}; MODE=${2:-target}; shift 2
SRC=${VERIF_SRC:-/verif}
MX=${MX_DIR:-/tmp/mx}
rm -rf $MX; mkdir -p $MX
git -C /repo worktree prune
git -C /repo worktree add -q --detach $MX/repo HEAD || exit 2
mkdir -p $MX/verif && (cd $SRC && git ls-files -z | grep -zv '^seeded/\|^evidence/' | xargs -0 cp --parents -t $MX/verif)
mkdir -p $MX/verif/evidence
ALL=$(python3 -c "import json;print(' '.join(c['property_id'] for c in json.load(open('$SRC/MANIFEST.json'))['checks']))")
seeds="$@"; [ -z "$seeds" ] && seeds=$(ls $SRC/seeded | grep -v '^retired$')
: > $OUT
for s in $seeds; do
  S=$SRC/seeded/$s
  [ -f $S/patch.diff ] || continue
  git -C $MX/repo reset -q --hard HEAD ; git -C $MX/repo clean -qfd
  if ! git -C $MX/repo apply $S/patch.diff 2>/dev/null && ! { git -C $MX/repo apply -3 $S/patch.diff >/dev/null 2>&1 && git -C $MX/repo reset -q; }; then printf "%s\t-\tpatch-does-not-apply\t\n" $s >> $OUT; continue; fi
  if ! (cd $MX/repo && go build ./... && go build -tags verif ./...) >/dev/null 2>&1; then printf "%s\t-\tdoes-not-build\t\n" $s >> $OUT; continue; fi
  if ! (cd $MX/repo && timeout 600 go test -vet=off -count=1 ./... >/dev/null 2>&1); then printf "%s\t-\tsuite-fails\t\n" $s >> $OUT; fi
  case $s in
    revert-*) c=$(echo $s | cut -d- -f2); tgt=$(grep -o "property=C[0-9]* $c" $SRC/known_findings.json | cut -d= -f2 | cut -d' ' -f1);;
    *) tgt=${s%%-*};;
  esac
  ids=$tgt; [ $MODE = all ] && ids=$ALL; [ -n "${MX_CHECKS:-}" ] && ids=$MX_CHECKS
  for id in $ids; do
    t0=$(date +%s)
    out=$(cd $MX/verif && VERIF_REPO=$MX/repo timeout 1500 ./check $id quick 2>&1)
    rc=$?
    sig=$(echo "$out" | grep -m1 '^  \[' | sed 's/^  //' | cut -c1-160)
    case $rc in 0) v=held;; 1) v=caught;; 124) v=timeout;; *) v="error($rc)"; sig=$(echo "$out" | grep -m1 HARNESS | cut -c1-160);; esac
    mark=""; [ $id = "$tgt" ] && mark="*"
    printf "%s\t%s%s\t%s\t%s\t%ss\n" $s $id "$mark" $v "$sig" $(( $(date +%s) - t0 )) >> $OUT
  done
done
git -C /repo worktree remove --force $MX/repo
rm -rf $MX
echo "matrix done: $OUT"
