#!/bin/bash
# usage: mutcheck.sh <patch.diff> <ID> [tier] — apply a seeded change to /repo, run a check, undo.
P="$1"; ID="$2"; TIER="${3:-quick}"
cd /repo || exit 2
git diff --quiet || { echo "repo dirty"; exit 2; }
git apply "$P" || git apply -3 "$P" || { echo "patch does not apply"; git checkout -- .; exit 2; }
cd /verif
./check "$ID" "$TIER" 2>&1 | grep -E "VIOLATION|KNOWN|HARNESS|held|VIOLATED|^  \[" | head -12
git -C /repo checkout -- .
