#!/bin/bash
# usage: mutcheck.sh <patch.diff> <ID> [tier] — apply a seeded change to /repo, run a check, undo.
# The evidence file of the clean tree is put back afterwards.
P="$1"; ID="$2"; TIER="${3:-quick}"
cd /repo || exit 2
git diff --quiet || { echo "repo dirty"; exit 2; }
git apply "$P" 2>/dev/null || git apply -3 "$P" || { echo "patch does not apply"; git reset -q --hard HEAD; exit 2; }
cd /verif
cp evidence/$ID.json /tmp/evidence-$ID.bak 2>/dev/null
./check "$ID" "$TIER" 2>&1 | grep -E "VIOLATION|KNOWN|HARNESS|held|VIOLATED|^  \[" | head -12
[ -f /tmp/evidence-$ID.bak ] && mv /tmp/evidence-$ID.bak evidence/$ID.json
git -C /repo reset -q --hard HEAD
