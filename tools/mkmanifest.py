#!/usr/bin/env python3
"""Regenerates /verif/MANIFEST.json from the table below."""
import json, subprocess
props=[json.loads(l) for l in open('/verif/properties.jsonl')]
ENV="GOFLAGS=-mod=mod GOPROXY=off GOSUMDB=off GOTOOLCHAIN=local"
SIM="the scripted in-memory connection, reference broker (independent MQTT 3.1.1 codec) and instrumented Persistence of /verif/harness/sim model network, broker and store faithfully; faults are realistic (see DESIGN.md section 3 conventions)"
checks={
 "C14":("exploration","runtime monitoring: per-call classification against the documented sets with byte attribution on the wire (unique topic markers), over a PRNG-drawn matrix method x state x fault placement x quit x argument x store fault; classifier laws on generated error trees against errors.Is; race detector on",
        "Held on the cells run: every error was in the documented set of its method; not-submitted classes came with zero bytes of the request on every connection; ErrBreak/ErrAbandoned only with the complete packet; quit alone gave ErrCanceled/ErrAbandoned; refused persisted publishes left no record, bytes, exchange or used slot; IsDeny/IsEnd/Backoff/ReadBackoff agreed with the errors.Is reference on generated trees and did not modify them. The matrix is sampled by PRNG (~2000 cells per run), not enumerated.","3/C14"),
 "C13":("exploration","runtime monitoring: reference classifier (first offending packet over a model of outstanding transfers) vs the client's behaviour on directed, single-field-mutated, truncated and random inputs, as handshake reply and as stream; deadline-discipline monitor in the connection; allocation counter; child-process panic monitor",
        "Held on the inputs generated: no panic; every listed protocol violation surfaced as a ReadSlices error, the connection was closed by the client and the next ReadSlices dialled again; packets before the offence took effect exactly as the reference says; no transfer completed and no record was removed without its in-order acknowledgement bytes in the input; every Read blocking inside a packet had a deadline armed; allocation stayed below the largest announced packet + 8 MiB. Inputs are generated (47 directed offences, all single-field mutations of generated streams, all truncations, PRNG soup, all 256 return codes), not the set of all byte strings; coverage-guided fuzzing was cut.","3/C13"),
 "C09":("exploration","runtime monitoring: reference validity predicate + strict independent decode of every emitted packet, over a boundary-list x PRNG argument and Config generator; trace monitors for 'no byte, no store operation, no capacity consumed' on denial",
        "Held on the arguments generated: every valid request was accepted and its packet decoded strictly to the requested fields and equalled the reference encoding; every invalid one was refused with IsDeny (constructor error for Config) without a byte written, a Persistence operation or a slot consumed (probed at a maximum of one in-flight transfer). Input classes are boundary lists, so coverage of the string/size space is by class, not exhaustive.","3/C09"),
 "C15":("exploration","runtime monitoring: independent re-encoding at the Save boundary (online, concurrent workload under the race detector), exhaustive single-byte damage and truncation through read-only exports, end-to-end damage of each record kind before AdoptSession",
        "Held on everything enumerated: layout and round trip for all listed sizes and sequence numbers; every single-byte change (exhaustive for records up to 76 bytes: every position x 255 values) and every truncation below 12 bytes was rejected; in real stores a damaged record of each kind was reported and its bytes never reached the wire. Multi-byte damage is measured and reported, not claimed.","3/C15"),
 "C20":("exploration","runtime monitoring of the doubles against a 30-line reference semantics on a recording testing.TB, exhaustive within the stated small scope",
        "Held exhaustively within scope: all expectation lists (length 0-3) x all invocation sequences (length 0-4) over a 2x2 alphabet plus closed quit for the publish mock; all filter-set expectation lists (length 0-2) x invocation sequences (length 0-2, filter sequences up to 3 with repetitions) for both subscribe mocks; all exchange scripts of length 0-3; stubs and ReadSlices doubles on their contracts.","3/C20"),
 "C08":("fault_enumeration","runtime monitoring: per-connection byte log decoded by the independent codec and accounted packet by packet, under scripted write splits (expiry after progress, hard errors) and 1-12 concurrent request goroutines plus the read routine's acknowledgements; race detector on",
        "Held on the episodes run: every connection's bytes were a concatenation of complete packets, each byte-identical to the reference encoding of an issued request, a stored record or an owed acknowledgement, followed by at most one true prefix ending the log; no request reported success without its complete packet on the wire. Splits are PRNG-placed (0, 1, len-1, random; spanning header/payload), not enumerated exhaustively.","3/C08"),
 "C04":("fault_enumeration","runtime monitoring: reception oracle over step-scripted episodes with the reference broker as QoS 2 sender (retransmissions, identifier reuse), lost acknowledgements, breaks, restarts via AdoptSession, transient store errors",
        "Held on the episodes run: no exactly-once message came out of ReadSlices twice in one process, nor again after a restart once the next invocation had come back (marker durable), every message came out at least once, and at idle the broker's handshake table was empty, i.e. every PUBLISH (duplicate or not) got its PUBREC and every PUBREL its PUBCOMP.","3/C04"),
 "C07":("exploration","runtime monitoring: acknowledgement-timing oracle with a harness-controlled read loop (each ReadSlices invocation granted explicitly), competing outbound requests, failing/lost acknowledgement writes, breaks, restarts; race detector on",
        "Held on the schedules produced: every PUBACK/PUBREC byte was written after the return of that identifier AND after the next ReadSlices invocation, an owed acknowledgement survived reconnects (written before the same message came out again), and every returned QoS 1/2 message was acknowledged by idle.","3/C07"),
 "C06":("exploration","runtime monitoring: differential oracle (reference stream expectation, all fragmentations agree) over exhaustive single-cut/single-stall fragmentations of generated streams at small read buffers, sampled at 128 KiB",
        "Held on the fragmentations run: for each generated well-formed stream every single cut position, every single cut followed by a progress-making expiry, 1-byte reads, the coalesced whole and PRNG multi-cut plans gave exactly the reference (topic, payload / BigMessage Topic, Size, ReadAll) list and the reference acknowledgement bytes, with no ReadSlices error. Exhaustive in cut position per stream at small buffers; streams themselves are sampled.","3/C06"),
 "C02":("fault_enumeration","runtime monitoring: crash-point enumeration over recorded (store, broker) snapshots, AdoptSession on each, byte-exact resend oracle, up to 3 generations, wrap positioning",
        "Held on the stop points enumerated: at every recorded snapshot of the Persistence (after each Save/Delete, with the reference broker's state of the same instant) AdoptSession returned without warnings and the first connection resumed exactly the pending records, in order, at the right stage, with their identifiers; new publishes continued the sequence; all completed; exactly-once messages were forwarded once across generations. Stop points come from PRNG fault episodes, so the enumeration is complete per episode (within the per-episode cap), not over all histories.","3/C02"),
 "C01":("fault_enumeration","runtime monitoring: trace oracles over PRNG-scripted fault episodes (real client, simulated conn/broker/store), race detector on",
        "Held on the episodes run: every accepted publish was completely written, resent in full after each undisturbed reconnect while unacknowledged, its record removed and its exchange closed only after the final acknowledgement was delivered, and everything completed once faults stopped (bounded progress, wedges decided structurally). Faults are placed by a seeded PRNG at byte offsets, operations and acknowledgements; it is sampling of the fault space, not enumeration.","3/C01"),
 "C03":("fault_enumeration","runtime monitoring: reference-broker delivery log + wire/store trace oracles over fault episodes; full 16384-identifier window scenario",
        "Held on the episodes run: no PUBLISH of an exactly-once message was written after its PUBREL record was saved, resumed stage matched the record, no identifier was given to another message before its record was removed, and the reference broker forwarded every exactly-once message exactly once.","3/C03"),
 "C05":("exploration","runtime monitoring: order and DUP oracles on the decoded wire under sequential and concurrent publishers with randomised yields at hook points, race detector on",
        "Held on the interleavings produced: first appearances in acceptance order per level, resend region equals the pending set in ascending order before anything new, PUBREL in PUBREC order, DUP exactly on retransmissions of completely written packets within one process.","3/C05"),
}
m={
 "version":1,
 "setup_cmd":f"cd /verif/harness && {ENV} go build -tags verif -o /verif/bin/verifcheck ./cmd/verifcheck && {ENV} go build -race -tags verif -o /verif/bin/verifcheck-race ./cmd/verifcheck",
 "hooks":{"guard":"verif","enable":"go build -tags verif (the harness module replaces github.com/pascaldekloe/mqtt => /repo, so every check compiles /repo's working tree)",
          "baseline_off_cmd":f"cd /repo && {ENV} go test -vet=off -count=1 ./...",
          "source_commits":["3250b93"],"add_only":True},
 "engines":[{"name":"verifcheck","path":"/verif/harness","serves_properties":sorted(checks),"kind_free_text":"Go harness: simulated world (scripted net.Conn, reference broker, instrumented Persistence, hook scheduler), per-property monitors over the recorded trace, child-process runner with crash/wedge/race detection"}],
 "checks":[],
 "notes":"Exit codes: 0 held, 1 violation (VIOLATION line), 2 harness error (HARNESS-ERROR line, e.g. the tree does not compile or the monitors observed too little). Known findings are listed in /verif/known_findings.json.",
 "not_applicable":[],
}
for p in props:
    pid=p['id']
    if pid in checks:
        lvl,tech,text,ref=checks[pid]
        m["checks"].append({"property_id":pid,"quick_cmd":f"./check {pid} quick","thorough_cmd":f"./check {pid} thorough",
          "evidence_file":f"/verif/evidence/{pid}.json","replay_cmd_template":f"./check {pid} --replay {{path}}","engine":"verifcheck",
          "level_claimed":{"category":lvl,"text":text,"design_ref":ref},"level_note":SIM,"technique":tech})
    else:
        m["not_applicable"].append({"property_id":pid,"reason":"check not built yet (work in progress); runtime monitoring applies, see DESIGN.md section 3"})
json.dump(m,open('/verif/MANIFEST.json','w'),indent=1)
import jsonschema
jsonschema.validate(m,json.load(open('/root/.vp/MANIFEST.schema.json')))
print("ok",len(m["checks"]),"checks")
