#!/bin/bash
# Runs every registered quick check on the clean tree and reports; the evidence files get rewritten.
cd /verif
git -C /repo diff --quiet || { echo "repo dirty"; exit 2; }
for id in $(python3 -c "import json;print(' '.join(c['property_id'] for c in json.load(open('MANIFEST.json'))['checks']))"); do
  /usr/bin/time -f "$id %es" timeout 1800 ./check $id ${1:-quick} 2>&1 | grep -E "VIOLATION|KNOWN|HARNESS|held|VIOLATED|^C[0-9]+ [0-9.]+s" 
done
python3-vt - <<'PY'
import json,jsonschema,glob
s=json.load(open('/root/.vp/EVIDENCE.schema.json'))
for f in sorted(glob.glob('/verif/evidence/*.json')):
    try:
        jsonschema.validate(json.load(open(f)),s)
    except Exception as e:
        print('INVALID',f,str(e)[:200])
print('evidence validated')
PY
