#!/bin/bash
# usage: seed_sweep.sh <seed>… — every registered quick check at each seed on the clean tree; prints what did not hold.
# Evidence files are put back afterwards (they belong to VERIF_SEED=1 runs).
cd "$(dirname "$0")/.."
git -C /repo diff --quiet || { echo "repo dirty"; exit 2; }
mkdir -p /tmp/evbak && cp evidence/*.json /tmp/evbak/
for s in "$@"; do
  for id in $(python3 -c "import json;print(' '.join(c['property_id'] for c in json.load(open('MANIFEST.json'))['checks']))"); do
    out=$(VERIF_SEED=$s timeout 1800 ./check $id quick 2>&1); rc=$?
    if [ $rc -ne 0 ]; then echo "seed $s $id exit=$rc"; echo "$out" | grep -A1 "^VIOLATION\|^HARNESS" | cut -c1-400; fi
  done
  echo "seed $s done"
done
cp /tmp/evbak/*.json evidence/
