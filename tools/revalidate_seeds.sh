#!/bin/bash
# usage: revalidate_seeds.sh [id…] — re-confirm the seeded changes against /repo's HEAD in a scratch
# worktree: demo passes on the clean tree, patch applies, builds (hooks off and on), the repository's
# suite passes with it, the demo fails with it. Prints one line per seed.
export GOFLAGS=-mod=mod GOPROXY=off GOSUMDB=off GOTOOLCHAIN=local
WT=/tmp/wt/reval
git -C /repo worktree remove --force $WT 2>/dev/null
mkdir -p /tmp/wt && git -C /repo worktree add -q --detach $WT HEAD || exit 2
cd $WT
ids="$@"; [ -z "$ids" ] && ids=$(ls /verif/seeded | grep -v '^revert-\|^retired')
for id in $ids; do
  S=/verif/seeded/$id
  [ -f $S/demo_test.go ] || { echo "$id no-demo"; continue; }
  git checkout -q -- . ; git clean -qfd
  DD=$(python3 -c "import json;print(json.load(open('$S/meta.json')).get('demo_dir','.'))" 2>/dev/null); [ -d "$DD" ] || DD=.
  st=""
  cp $S/demo_test.go $DD/seed_demo_test.go
  ( cd $DD && timeout 300 go test -vet=off -count=1 -run TestSeedDemo . ) >/tmp/wt/reval.log 2>&1 || st="$st demo-fails-on-clean"
  rm -f $DD/seed_demo_test.go
  if git apply $S/patch.diff 2>/dev/null || git apply -3 $S/patch.diff 2>/dev/null; then
    ( go build ./... && go build -tags verif ./... ) >/dev/null 2>&1 || st="$st build-fails"
    timeout 600 go test -vet=off -count=1 ./... >/dev/null 2>&1 || st="$st suite-fails"
    cp $S/demo_test.go $DD/seed_demo_test.go
    ( cd $DD && timeout 300 go test -vet=off -count=1 -run TestSeedDemo . ) >/dev/null 2>&1 && st="$st demo-passes-with-patch"
    rm -f $DD/seed_demo_test.go
  else
    st="$st patch-does-not-apply"
  fi
  echo "$id ${st:- OK}"
done
cd /; git -C /repo worktree remove --force $WT
