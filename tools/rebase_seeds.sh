#!/bin/bash
# Re-makes seeded patch.diff files that no longer apply plainly to /repo's HEAD but still merge three-way.
WT=/tmp/wt/rebase
git -C /repo worktree remove --force $WT 2>/dev/null
mkdir -p /tmp/wt && git -C /repo worktree add -q --detach $WT HEAD || exit 2
cd $WT
for d in /verif/seeded/*/; do
  [ -f $d/patch.diff ] || continue
  git checkout -q -- . ; git clean -qfd
  if git apply --check $d/patch.diff 2>/dev/null; then continue; fi
  if git apply -3 $d/patch.diff >/dev/null 2>&1 && ! git diff --name-only --diff-filter=U | grep -q .; then
    git reset -q; git diff > $d/patch.diff; echo "re-made $(basename $d)"
  else
    git reset -q --hard HEAD; echo "CONFLICT $(basename $d)"
  fi
done
cd /; git -C /repo worktree remove --force $WT
