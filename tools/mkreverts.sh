#!/bin/bash
# Regenerates /verif/seeded/revert-<commit>-…/patch.diff: the reverse of every "fix:" commit of /repo,
# as it applies to /repo's HEAD. A reverse that no longer applies is reported; it then has to be
# re-made by hand (patch.diff is left alone and marked in meta).
cd /repo || exit 2
git diff --quiet || { echo "repo dirty"; exit 2; }
for c in $(git log --format=%h --grep '^fix:' --reverse); do
  subj=$(git log -1 --format=%s $c | sed 's/^fix: //' | tr 'A-Z' 'a-z' | tr -c 'a-z0-9\n' '-' | cut -c1-48 | sed 's/-*$//')
  d=/verif/seeded/revert-$c-$subj
  old=$(ls -d /verif/seeded/revert-$c-* 2>/dev/null | head -1)
  [ -n "$old" ] && d=$old
  mkdir -p $d
  git log -1 --format=%B $c > $d/fix-message.txt
  git diff $c $c^ > /tmp/rev.diff
  if git apply --check /tmp/rev.diff 2>/dev/null; then
    cp /tmp/rev.diff $d/patch.diff; echo "$c plain"
  elif git apply -3 /tmp/rev.diff 2>/dev/null && ! git diff --name-only --diff-filter=U | grep -q .; then
    git diff HEAD > $d/patch.diff; git reset -q --hard HEAD; echo "$c 3-way"
  else
    git reset -q --hard HEAD; echo "$c CONFLICT (hand-made patch needed: $d)"
  fi
done
