#!/bin/bash
# usage: confirm_seed.sh <Cxx> <n> — confirm a seeded change in its scratch worktree and, when it
# holds up, copy it to /verif/seeded/<Cxx>-<n>/.
export GOFLAGS=-mod=mod GOPROXY=off GOSUMDB=off GOTOOLCHAIN=local
ID=$1; N=$2; WT=/tmp/wt/$ID; S=$WT/_seed/$N
cd $WT || exit 2
git checkout -q -- . ; rm -f seed_demo_test.go mqtttest/seed_demo_test.go
DD=$(python3 -c "import json;print(json.load(open('$S/meta.json')).get('demo_dir','.'))")
[ -d "$DD" ] || DD=.
LOG=$S/confirm.log; : > $LOG
ok=1
cp $S/demo_test.go $DD/seed_demo_test.go
( cd $DD && timeout 300 go test -vet=off -count=1 -run TestSeedDemo . ) >>$LOG 2>&1 || { echo "demo fails on clean tree" >>$LOG; ok=0; }
rm -f $DD/seed_demo_test.go
if ! git apply $S/patch.diff >>$LOG 2>&1; then
  # the worktree moved on since the change was written: three-way, and keep the result as the patch
  if git apply -3 $S/patch.diff >>$LOG 2>&1 && ! git diff --name-only --diff-filter=U | grep -q .; then
    git reset -q; git diff > $S/patch.diff; echo "patch re-made by three-way merge" >>$LOG
  else
    git reset -q --hard HEAD; echo "patch does not apply" >>$LOG; ok=0
  fi
fi
( go build ./... && go build -tags verif ./... && go vet . ) >>$LOG 2>&1 || { echo "build/vet fails" >>$LOG; ok=0; }
for i in 1 2 3; do timeout 600 go test -vet=off -count=1 ./... >>$LOG 2>&1 || { echo "suite fails with patch (run $i)" >>$LOG; ok=0; }; done
cp $S/demo_test.go $DD/seed_demo_test.go
( cd $DD && timeout 300 go test -vet=off -count=1 -run TestSeedDemo . ) >>$LOG 2>&1 && { echo "demo passes with patch" >>$LOG; ok=0; }
rm -f $DD/seed_demo_test.go
git checkout -q -- .
if [ $ok = 1 ]; then
  D=/verif/seeded/$ID-$N; mkdir -p $D
  cp $S/patch.diff $S/demo_test.go $D/
  python3 - <<PY
import json
m=json.load(open('$S/meta.json'))
m['breaks_property']='$ID'
m['confirmed']={'by':'tools/confirm_seed.sh in scratch worktree $WT','steps':['demo passes on clean tree','patch applies','go build ./... && go build -tags verif ./... && go vet .','go test -vet=off -count=1 ./... x3 pass with patch','demo fails with patch']}
json.dump(m,open('$D/meta.json','w'),indent=1)
PY
  echo "$ID-$N CONFIRMED"
else
  echo "$ID-$N REJECTED: $(grep -E 'fails|passes with|does not apply' $LOG | tr '\n' ';')"
fi
